"""Build bt from /repo's *working tree* into /verif/.build/<hash>/{py,cy}/bt.

/repo/bt contains a git-ignored compiled core.*.so that shadows core.py, so checks never
import bt from /repo.  "py" = plain copy (core.py interpreted); "cy" = same sources with
core.py cythonized + compiled (what `setup.py build_ext` does).
"""
import fcntl
import hashlib
import os
import shutil
import subprocess
import sys

VERIF = os.path.dirname(os.path.dirname(os.path.abspath(__file__)))
FILES = ["__init__.py", "core.py", "algos.py", "backtest.py"]
GUARD = "PMORISSETTE_BT_VERIF"


def repo_dir():
    return os.environ.get("VERIF_REPO", "/repo")


def source_hash():
    h = hashlib.sha256()
    for f in FILES:
        with open(os.path.join(repo_dir(), "bt", f), "rb") as fh:
            h.update(f.encode())
            h.update(fh.read())
    return h.hexdigest()[:16]


def _prune(root, keep):
    try:
        ds = [os.path.join(root, d) for d in os.listdir(root) if not d.startswith(".")]
    except FileNotFoundError:
        return
    ds = [d for d in ds if os.path.isdir(d) and os.path.basename(d) != keep]
    ds.sort(key=lambda d: os.path.getmtime(d), reverse=True)
    for d in ds[8:]:  # several checks (sensitivity runs against patched copies) may be using their builds at the same time
        shutil.rmtree(d, ignore_errors=True)


def ensure_build(kind="py"):
    """Return a directory to put first on sys.path so that `import bt` is the working tree."""
    assert kind in ("py", "cy")
    h = source_hash()
    root = os.path.join(VERIF, ".build")
    os.makedirs(root, exist_ok=True)
    base = os.path.join(root, h)
    os.makedirs(base, exist_ok=True)
    lock = open(os.path.join(root, ".lock"), "w")
    fcntl.flock(lock, fcntl.LOCK_EX)
    try:
        dst = os.path.join(base, kind)
        marker = os.path.join(dst, ".ok")
        if not os.path.exists(marker):
            shutil.rmtree(dst, ignore_errors=True)
            os.makedirs(os.path.join(dst, "bt"))
            for f in FILES:
                shutil.copy(os.path.join(repo_dir(), "bt", f), os.path.join(dst, "bt", f))
            if kind == "cy":
                script = (
                    "from setuptools import setup\n"
                    "from Cython.Build import cythonize\n"
                    "setup(name='btv', ext_modules=cythonize('bt/core.py', quiet=True), script_args=['build_ext','--inplace','-q'])\n"
                )
                env = dict(os.environ)
                env["CFLAGS"] = "-O1 -w"
                r = subprocess.run([sys.executable, "-c", script], cwd=dst, env=env, capture_output=True, text=True)
                so = [f for f in os.listdir(os.path.join(dst, "bt")) if f.startswith("core.") and f.endswith(".so")]
                if r.returncode != 0 or not so:
                    raise RuntimeError("cython build failed:\n" + r.stdout[-2000:] + r.stderr[-4000:])
                shutil.rmtree(os.path.join(dst, "build"), ignore_errors=True)
                try:
                    os.remove(os.path.join(dst, "bt", "core.c"))
                except OSError:
                    pass
            open(marker, "w").write(h)
        os.utime(base)
        _prune(root, h)
    finally:
        fcntl.flock(lock, fcntl.LOCK_UN)
        lock.close()
    return dst


_loaded = {}


def load_bt(kind="py"):
    """Import bt from the build dir (once per process) and return the module."""
    if "bt" in _loaded:
        if _loaded["kind"] != kind:
            raise RuntimeError("bt already loaded as %s" % _loaded["kind"])
        return _loaded["bt"]
    os.environ.setdefault(GUARD, "1")
    d = ensure_build(kind)
    sys.path.insert(0, d)
    import warnings

    warnings.filterwarnings("ignore")
    import matplotlib

    matplotlib.use("Agg")
    import bt  # noqa

    import bt.core

    f = os.path.realpath(bt.core.__file__)
    if not f.startswith(os.path.realpath(d)):
        raise RuntimeError("bt.core imported from %s, not from build dir %s" % (f, d))
    if kind == "py" and not f.endswith(".py"):
        raise RuntimeError("interpreted build expected, got %s" % f)
    if kind == "cy" and not f.endswith(".so"):
        raise RuntimeError("compiled build expected, got %s" % f)
    _loaded["bt"] = bt
    _loaded["kind"] = kind
    return bt


if __name__ == "__main__":
    print(ensure_build(sys.argv[1] if len(sys.argv) > 1 else "py"))
