"""Interpret plain-data specs into bt objects.  The only module (besides props) that touches bt."""
import math
import random

import numpy as np
import pandas as pd


# --------------------------------------------------------------------------- data
def mk_dates(dates):
    return pd.DatetimeIndex([pd.Timestamp(d) for d in dates])


def mk_frame(dates, cols, dtype=float):
    idx = mk_dates(dates)
    data = {}
    for k, v in cols.items():
        data[k] = [np.nan if x is None else x for x in v]
    df = pd.DataFrame(data, index=idx)
    if dtype is float:
        df = df.astype(float)
    return df


def mk_offset(o):
    """{"days": n} | {"months": n} | {"hours": n} -> pd.DateOffset; {"bday": n} / {"monthend": n} -> anchored offsets (with n = 0 they
    roll a non-anchor date FORWARD when subtracted, e.g. Sunday - BDay(0) = Monday)"""
    if "bday" in o:
        return pd.offsets.BDay(o["bday"])
    if "monthend" in o:
        return pd.offsets.MonthEnd(o["monthend"])
    return pd.DateOffset(**o)


# --------------------------------------------------------------------------- fees
class Fee(object):
    """Commission function built from a spec; counts calls (spy)."""

    def __init__(self, spec):
        self.spec = spec or {"kind": "none"}
        self.calls = []
        self.record = False

    def value(self, q, p):
        s = self.spec
        k = s["kind"]
        aq = abs(q)
        if k == "none":
            return 0.0
        if k == "fixed":
            return float(s["f"])
        if k == "unit":
            return s["k"] * aq
        if k == "prop":
            return s["r"] * aq * abs(p)
        if k == "fixed+prop":
            return s["f"] + s["r"] * aq * abs(p)
        if k == "max":
            return max(s["f"], s["k"] * aq)
        # charges that depend on the side of the trade (a levy on sales, a duty on purchases, different ticket charges)
        if k == "sell_levy":
            return s["r"] * aq * abs(p) if q < 0 else 0.0
        if k == "buy_duty":
            return s["r"] * aq * abs(p) if q > 0 else 0.0
        if k == "side_fixed":
            return float(s["fb"]) if q >= 0 else float(s["fs"])
        raise ValueError(k)

    def __call__(self, q, p):
        v = self.value(q, p)
        if self.record:
            self.calls.append((q, p, v))
        return v

    def __deepcopy__(self, memo):
        return self  # shared spy (like a plain function would be)


# --------------------------------------------------------------------------- harness algos
class SetCash(object):
    """user-style algo: temp['cash'] = c"""

    def __init__(self, c):
        self.c = c

    def __call__(self, target):
        target.temp["cash"] = self.c
        return True


class FlowNoUpdate(object):
    """user-style algo: books a capital flow with update=False and relies on the backtest's closing update (lazy-update protocol)"""

    def __init__(self, amount):
        self.amount = amount

    def __call__(self, target):
        target.adjust(self.amount, update=False)
        return True


class FeeNoFlow(object):
    """user-style algo: a charge (or rebate) booked against the strategy on every call - a non-flow adjustment, i.e. P&L"""

    def __init__(self, amount):
        self.amount = amount

    def __call__(self, target):
        target.adjust(-self.amount, flow=False)
        return True


class TradeNoUpdate(object):
    """user-style algo: trades with update=False and relies on the backtest's closing update (lazy-update protocol)"""

    def __init__(self, child, frac, how="allocate", units=None):
        self.child = child
        self.frac = frac
        self.how = how
        self.units = units

    def __call__(self, target):
        px = target.universe.loc[target.now, self.child]
        if not (px == px) or px <= 0:
            return True
        amount = self.frac * target.value
        if self.units is not None:
            # an overlay trading a fixed quantity with default flags (the tree is marked stale, nothing is read afterwards)
            target.transact(self.units, child=self.child)
        elif self.how == "lazy":
            # default flags: the tree is only marked stale (what HedgeRisks does with its hedge trades); whoever reads next refreshes it
            target.transact(amount / px, child=self.child)
        elif self.how == "strategy_transact":
            # the batch idiom of RollPositionsAfterDates: trade through the strategy with update=False, the closing update comes later
            target.transact(amount / px, child=self.child, update=False)
        elif self.how == "allocate_child":
            target.allocate(amount, child=self.child)
        elif self.how == "transact":
            # a trade booked on the security itself, with the refresh left to whoever drives the tree
            target._create_child_if_needed(self.child)
            target.children[self.child].transact(amount / px, update=False)
        else:
            # what the Rebalance algo does for each of its targets (it then refreshes the tree itself, this algo does not)
            target.rebalance(abs(self.frac), self.child, update=False)
        return True


class CloseChild(object):
    """user-style algo: close one child with default flags"""

    def __init__(self, child):
        self.child = child

    def __call__(self, target):
        if self.child in target.children:
            target.close(self.child)
        return True


class SpawnSub(object):
    """user-style algo (the pattern of examples/pairs_trading.py): on one date a sub-strategy is created under the running strategy with
    parent=target and setup_from_parent(), then funded by the parent; the newcomer runs its own little stack from then on"""

    bt = None  # the library module under test (class attribute: instances are deep-copied by Backtest)

    def __init__(self, bt, date, name, tickers, frac, declare=True):
        SpawnSub.bt = bt
        self.date, self.name, self.tickers, self.frac, self.declare = pd.Timestamp(date), name, list(tickers), frac, declare

    def __call__(self, target):
        A = self.bt.algos
        if target.now == self.date and self.name not in target.children:
            algos = [A.RunOnce(), A.SelectThese(self.tickers), A.WeighEqually(), A.Rebalance()]
            new = self.bt.Strategy(self.name, algos, children=list(self.tickers) if self.declare else None, parent=target)
            new.setup_from_parent()
            if self.frac:
                # funded at once (reading the parent's value refreshes the tree), or left for a later algo of the stack to fund
                target.allocate(self.frac * target.value, child=self.name)
        return True


class UpdateSelf(object):
    """user-style algo (as in the repository's pairs-trading example): a sub-strategy's stack ends by updating the sub-strategy itself"""

    def __call__(self, target):
        target.update(target.now)
        return True


class Const(object):
    def __init__(self, v):
        self.v = v

    def __call__(self, target):
        return self.v


class RFQModel(object):
    """deterministic RFQ model: every request of at least min_qty units trades at its quoted price"""

    def __init__(self, min_qty=0.0):
        self.min_qty = min_qty

    def __call__(self, rfqs, target):
        return rfqs[rfqs["quantity"].abs() >= self.min_qty][["quantity", "price"]]


class Probe(object):
    """Calls a harness callback with the target; identity survives deepcopy via registry."""

    registry = {}

    def __init__(self, key, ret=True, run_always=None, tag=None):
        self.key = key
        self.ret = ret
        self.tag = tag
        if run_always is not None:
            self.run_always = run_always

    def __call__(self, target):
        cb = Probe.registry.get(self.key)
        if cb is not None:
            r = cb(self, target)
            if r is not None:
                return r
        return self.ret


# --------------------------------------------------------------------------- algos
def _frame_arg(bt, p, spec, frames):
    """frame param: {"frame": name, "by_name": bool}"""
    if p.get("by_name", True):
        return p["frame"]
    return frames[p["frame"]]


def mk_algo(bt, a, spec, frames):
    name, p = a[0], (a[1] if len(a) > 1 else {})
    A = bt.algos
    if name in ("RunDaily", "RunWeekly", "RunMonthly", "RunQuarterly", "RunYearly"):
        return getattr(A, name)(**p)
    if name == "RunOnce":
        return A.RunOnce()
    if name == "RunOnDate":
        return A.RunOnDate(*p["dates"])
    if name == "RunAfterDate":
        return A.RunAfterDate(p["date"])
    if name == "RunAfterDays":
        return A.RunAfterDays(p["days"])
    if name == "RunEveryNPeriods":
        return A.RunEveryNPeriods(p["n"], p.get("offset", 0))
    if name == "Or":
        return A.Or([mk_algo(bt, x, spec, frames) for x in p["algos"]])
    if name == "Stack":
        return bt.core.AlgoStack(*[mk_algo(bt, x, spec, frames) for x in p["algos"]])
    if name == "Not":
        return A.Not(mk_algo(bt, p["algo"], spec, frames))
    if name == "SelectAll":
        return A.SelectAll(**p)
    if name == "SelectThese":
        return A.SelectThese(list(p["tickers"]), **{k: v for k, v in p.items() if k != "tickers"})
    if name == "SelectHasData":
        return A.SelectHasData(
            lookback=mk_offset(p["lookback"]),
            min_count=p.get("min_count"),
            include_no_data=p.get("include_no_data", False),
            include_negative=p.get("include_negative", False),
        )
    if name == "SelectN":
        return A.SelectN(**p)
    if name == "SelectMomentum":
        return A.SelectMomentum(
            n=p["n"],
            lookback=mk_offset(p["lookback"]),
            lag=mk_offset(p.get("lag", {"days": 0})),
            sort_descending=p.get("sort_descending", True),
            all_or_none=p.get("all_or_none", False),
        )
    if name == "StatTotalReturn":
        return A.StatTotalReturn(lookback=mk_offset(p["lookback"]), lag=mk_offset(p.get("lag", {"days": 0})))
    if name == "SetStat":
        return A.SetStat(_frame_arg(bt, p, spec, frames), lag=mk_offset(p.get("lag", {"days": 0})))
    if name == "SelectWhere":
        return A.SelectWhere(_frame_arg(bt, p, spec, frames), include_no_data=p.get("include_no_data", False), include_negative=p.get("include_negative", False))
    if name == "SelectRandomly":
        return A.SelectRandomly(n=p.get("n"), include_no_data=p.get("include_no_data", False), include_negative=p.get("include_negative", False))
    if name == "SelectRegex":
        return A.SelectRegex(p["regex"])
    if name == "SelectTypes":
        inc = tuple(getattr(bt.core, t) for t in p.get("include", ["Node"]))
        exc = tuple(getattr(bt.core, t) for t in p.get("exclude", []))
        return A.SelectTypes(include_types=inc, exclude_types=exc)
    if name == "SelectActive":
        return A.SelectActive()
    if name == "WeighEqually":
        return A.WeighEqually()
    if name == "WeighSpecified":
        return A.WeighSpecified(**p["weights"])
    if name == "WeighTarget":
        return A.WeighTarget(_frame_arg(bt, p, spec, frames))
    if name == "ScaleWeights":
        return A.ScaleWeights(p["scale"])
    if name in ("WeighInvVol",):
        return A.WeighInvVol(lookback=mk_offset(p["lookback"]), lag=mk_offset(p.get("lag", {"days": 0})))
    if name == "WeighERC":
        return A.WeighERC(
            lookback=mk_offset(p["lookback"]),
            lag=mk_offset(p.get("lag", {"days": 0})),
            covar_method=p.get("covar_method", "standard"),
            risk_parity_method=p.get("risk_parity_method", "ccd"),
            maximum_iterations=p.get("maximum_iterations", 1000),
            tolerance=p.get("tolerance", 1e-8),
        )
    if name == "WeighMeanVar":
        return A.WeighMeanVar(
            lookback=mk_offset(p["lookback"]), lag=mk_offset(p.get("lag", {"days": 0})), bounds=tuple(p.get("bounds", (0.0, 1.0))), covar_method=p.get("covar_method", "standard"), rf=p.get("rf", 0.0)
        )
    if name == "WeighRandomly":
        return A.WeighRandomly(bounds=tuple(p.get("bounds", (0.0, 1.0))), weight_sum=p.get("weight_sum", 1))
    if name == "LimitDeltas":
        return A.LimitDeltas(p["limit"])
    if name == "LimitWeights":
        return A.LimitWeights(p["limit"])
    if name == "TargetVol":
        return A.TargetVol(
            p["target"], lookback=mk_offset(p["lookback"]), lag=mk_offset(p.get("lag", {"days": 0})), covar_method=p.get("covar_method", "standard"), annualization_factor=p.get("af", 252)
        )
    if name == "PTE_Rebalance":
        return A.PTE_Rebalance(
            p["cap"], frames[p["frame"]], lookback=mk_offset(p["lookback"]), lag=mk_offset(p.get("lag", {"days": 0})), covar_method=p.get("covar_method", "standard"), annualization_factor=p.get("af", 252)
        )
    if name == "CapitalFlow":
        return A.CapitalFlow(p["amount"])
    if name == "CloseDead":
        return A.CloseDead()
    if name == "SetNotional":
        return A.SetNotional(p["frame"])
    if name == "Rebalance":
        return A.Rebalance()
    if name == "RebalanceOverTime":
        al = A.RebalanceOverTime(p["n"])
        if p.get("run_always"):
            al = A.run_always(al)  # the way the algo's docstring asks for it
        return al
    if name == "RunIfOutOfBounds":
        return A.RunIfOutOfBounds(p["tolerance"])
    if name == "Require":
        pred = {"nonempty": lambda x: len(x) > 0, "true": lambda x: True, "false": lambda x: False, "len>=2": lambda x: len(x) >= 2}[p["pred"]]
        return A.Require(pred, p["item"], p.get("if_none", False))
    if name == "ClosePositionsAfterDates":
        al = A.ClosePositionsAfterDates(p["frame"])
        if p.get("run_always"):
            al = A.run_always(al)
        return al
    if name == "RollPositionsAfterDates":
        al = A.RollPositionsAfterDates(p["frame"])
        if p.get("run_always"):
            al = A.run_always(al)
        return al
    if name == "ReplayTransactions":
        return A.ReplayTransactions(p["frame"])
    if name == "SimulateRFQTransactions":
        return A.SimulateRFQTransactions(p["frame"], RFQModel(p.get("min_qty", 0.0)))
    if name == "UpdateRisk":
        return A.UpdateRisk(p["measure"], history=p.get("history", 0))
    if name == "HedgeRisks":
        return A.HedgeRisks(p["measures"], pseudo=p.get("pseudo", False))
    if name == "PrintDate":
        return A.PrintDate()
    if name == "PrintTempData":
        return A.PrintTempData(p.get("fmt"))
    if name == "PrintInfo":
        return A.PrintInfo(p.get("fmt", "{name} {now}"))
    if name == "PrintRisk":
        return A.PrintRisk(p.get("fmt", ""))
    if name == "SetCash":
        return SetCash(p["c"])
    if name == "FlowNoUpdate":
        return FlowNoUpdate(p["amount"])
    if name == "FeeNoFlow":
        return FeeNoFlow(p["amount"])
    if name == "TradeNoUpdate":
        return TradeNoUpdate(p["child"], p["frac"], p.get("how", "allocate"), p.get("units"))
    if name == "SpawnSub":
        return SpawnSub(bt, p["date"], p["name"], p["tickers"], p["frac"], p.get("declare", True))
    if name == "CloseChild":
        return CloseChild(p["child"])
    if name == "UpdateSelf":
        return UpdateSelf()
    if name == "Const":
        return Const(p["v"])
    if name == "Probe":
        return Probe(p["key"], p.get("ret", True), p.get("run_always"), p.get("tag"))
    raise ValueError("unknown algo %r" % (name,))


_runsec_cls = {}


def runnable_security_class(bt):
    """a user-defined security whose run() does something (here: reports to the harness)"""
    if id(bt) not in _runsec_cls:

        class RunnableSecurity(bt.core.Security):
            def run(self):
                cb = Probe.registry.get("secrun")
                if cb is not None:
                    cb(self)

        _runsec_cls[id(bt)] = RunnableSecurity
    return _runsec_cls[id(bt)]


# --------------------------------------------------------------------------- trees
SEC_KINDS = ("Security", "SecurityBase", "FixedIncomeSecurity", "CouponPayingSecurity", "HedgeSecurity", "CouponPayingHedgeSecurity")


def mk_node(bt, n, spec, frames):
    """node spec: str (lazy security) | {"sec": name, "kind":..., "mult": m, "lazy": bool} |
    {"name":..., "kind": Strategy|StrategyBase|FixedIncomeStrategy, "algos": [...], "children": [...], "children_dict": bool}"""
    if isinstance(n, str):
        return n
    if "sec" in n:
        cls = runnable_security_class(bt) if n.get("kind") == "RunnableSecurity" else getattr(bt.core, n.get("kind", "Security"))
        kw = {}
        if n.get("mult", 1) != 1:
            kw["multiplier"] = n["mult"]
        if n.get("lazy"):
            kw["lazy_add"] = True
        if n.get("kind") in ("CouponPayingSecurity", "CouponPayingHedgeSecurity") and "fixed_income" in n:
            kw["fixed_income"] = n["fixed_income"]
        return cls(n["sec"], **kw)
    kind = n.get("kind", "Strategy")
    kids = n.get("children")
    children = None
    if kids is not None:
        built = [mk_node(bt, c, spec, frames) for c in kids if not (isinstance(c, dict) and c.get("spawn"))]  # 'spawn': created mid-run by the harness
        if n.get("children_dict"):
            children = {}
            for c in built:
                children[c if isinstance(c, str) else c.name] = c
        else:
            children = built
    if kind == "StrategyBase":
        node = bt.core.StrategyBase(n["name"], children=children)
    else:
        algos = [mk_algo(bt, a, spec, frames) for a in n.get("algos", [])]
        if kind == "FixedIncomeStrategy":
            node = bt.core.FixedIncomeStrategy(n["name"], algos=algos, children=children)
        else:
            node = bt.core.Strategy(n["name"], algos=algos, children=children)
    if n.get("own_fee") and frames.get("__fee__") is not None:
        # a commission function installed on this strategy while it is still stand-alone (before it is composed into a parent)
        node.set_commissions(frames["__fee__"])
    # sub-strategies attached after construction through the parent argument
    for c in n.get("late") or []:
        kids = [mk_node(bt, g, spec, frames) for g in c.get("children") or []] or None
        if c.get("kind", "Strategy") == "StrategyBase":
            bt.core.StrategyBase(c["name"], children=kids, parent=node)
        else:
            bt.core.Strategy(c["name"], algos=[mk_algo(bt, a, spec, frames) for a in c.get("algos", [])], children=kids, parent=node)
    return node


def mk_frames(spec):
    frames = {}
    for name, f in (spec.get("frames") or {}).items():
        kind = f.get("kind", "frame")
        if kind == "frame":
            df = mk_frame(f.get("dates", spec["dates"]), f["cols"], dtype=float if f.get("dtype", "float") == "float" else None)
            frames[name] = df
        elif kind == "series":
            frames[name] = pd.Series([np.nan if x is None else x for x in f["values"]], index=mk_dates(f.get("dates", spec["dates"])), dtype=float)
        elif kind == "table":  # indexed by security name
            df = pd.DataFrame(f["cols"], index=f["index"])
            for c in f.get("date_cols", []):
                if f.get("date_dtype") == "object":
                    # the way such a table is often put together: an empty frame filled cell by cell with Timestamps (object dtype)
                    df[c] = pd.Series([pd.Timestamp(x) for x in df[c]], index=df.index, dtype=object)
                else:
                    df[c] = pd.to_datetime(df[c])
            frames[name] = df
        elif kind == "dictframes":
            frames[name] = {k: mk_frame(spec["dates"], v) for k, v in f["frames"].items()}
        elif kind == "blotter":  # rows [stamp, security, quantity, price] in the order given (a blotter need not be sorted by time)
            rows = f["rows"]
            mi = pd.MultiIndex.from_arrays([pd.DatetimeIndex([pd.Timestamp(r[0]) for r in rows]), [r[1] for r in rows]], names=["Date", "Security"])
            frames[name] = pd.DataFrame({"quantity": [float(r[2]) for r in rows], "price": [float(r[3]) for r in rows]}, index=mi)
        else:
            raise ValueError(kind)
    return frames


def mk_data(spec):
    return mk_frame(spec["dates"], spec["prices"])


def mk_additional(spec, frames):
    add = {}
    if spec.get("bidoffer") is not None:
        # an empty mapping switches bid/offer accounting on without any spread data (what custom-price trades need)
        add["bidoffer"] = mk_frame(spec["dates"], spec["bidoffer"]) if spec["bidoffer"] else {}
    for k in spec.get("additional", []) or []:
        add[k] = frames[k]
    return add


def mk_backtest(bt, spec, fee=None, frames=None, strategy=None, data=None):
    frames = mk_frames(spec) if frames is None else frames
    data = mk_data(spec) if data is None else data
    if strategy is None:
        strategy = mk_node(bt, spec["tree"], spec, frames)
    add = mk_additional(spec, frames)
    if fee is None and spec.get("fee") and spec["fee"].get("kind") != "none":
        fee = Fee(spec["fee"])
    kw = {}
    if "initial_capital" in spec:
        kw["initial_capital"] = spec["initial_capital"]
    b = bt.Backtest(strategy, data, integer_positions=spec.get("integer_positions", True), commissions=fee, additional_data=add or None, progress_bar=bool(spec.get("progress_bar", False)), **kw)
    return b


def seed_rngs(spec):
    s = int(spec.get("rng_seed", 0))
    random.seed(s)
    np.random.seed(s % (2**32))


# --------------------------------------------------------------------------- snapshots
def _ser(s):
    return [None if (isinstance(x, float) and math.isnan(x)) else (float(x) if isinstance(x, (int, float, np.floating, np.integer)) else x) for x in s.tolist()]


def node_history(node, bt, upto=None):
    """dict of recorded series (as lists) of one node"""
    out = {}
    isstrat = isinstance(node, bt.core.StrategyBase)
    names = ["prices", "values", "notional_values"]
    if isstrat:
        names += ["cash", "fees", "flows"]
    else:
        names += ["positions", "outlays"]
        if node._bidoffer_set:
            names += ["bidoffers_paid"]
        if isinstance(node, bt.core.CouponPayingSecurity):
            names += ["coupons", "holding_costs"]
    if isstrat and node._bidoffer_set:
        names += ["bidoffers_paid"]
    for nm in names:
        s = getattr(node, nm)
        if upto is not None:
            s = s.loc[:upto]
        out[nm] = _ser(s)
    return out


def tree_history(root, bt, upto=None):
    return {m.full_name: node_history(m, bt, upto) for m in root.members}
