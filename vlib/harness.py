"""Shared harness: Hypothesis driving with stats, collect-and-continue for known findings,
bounded shrinking, replay files."""
import hashlib
import json
import os
import time
import traceback
from collections import Counter

import hypothesis
from hypothesis import HealthCheck, Phase, given, settings

VERIF = os.path.dirname(os.path.dirname(os.path.abspath(__file__)))


class Violation(Exception):
    """Property violated by bt on a well-formed case."""

    def __init__(self, msg, signature=None, detail=None):
        super().__init__(msg)
        self.msg = msg
        self.signature = signature or msg.split(":")[0][:80]
        self.detail = detail


class Discard(Exception):
    """Case is outside the property's quantifier (counted, not a verdict)."""

    def __init__(self, reason):
        super().__init__(reason)
        self.reason = reason


class HarnessError(Exception):
    pass


class CaseTimeout(BaseException):
    """a single generated case ran longer than the watchdog allows (BaseException: must not be swallowed by bt's or the oracle's handlers)"""


CASE_TIMEOUT_S = int(os.environ.get("VERIF_CASE_TIMEOUT", "300"))


def _alarm(signum, frame):
    raise CaseTimeout()


def canon(spec):
    return json.dumps(spec, sort_keys=True, separators=(",", ":"), default=str)


def spec_hash(spec):
    return hashlib.blake2b(canon(spec).encode(), digest_size=8).hexdigest()


def bt_frame_signature(exc):
    """(type, innermost frame inside bt, message prefix) for exception bucketing."""
    tb = traceback.extract_tb(exc.__traceback__)
    inner = None
    for fr in tb:
        fn = fr.filename.replace("\\", "/")
        if "/bt/" in fn and "/vlib/" not in fn:
            inner = "%s:%s" % (os.path.basename(fn), fr.name)
    msg = str(exc)
    msg = "".join(ch for ch in msg if not ch.isdigit())[:60]
    return "%s@%s:%s" % (type(exc).__name__, inner, msg)


class Stats:
    def __init__(self):
        self.evaluations = 0
        self.nontrivial = set()
        self.labels = Counter()
        self.discards = Counter()
        self.excluded_known = Counter()
        self.samples = []
        self.nt_samples = []
        self.failures = []  # dicts: sub, message, signature, spec
        self.per_sub = Counter()
        self.inconclusive = []

    def to_dict(self):
        return dict(
            evaluations=self.evaluations,
            nontrivial=sorted(self.nontrivial),
            labels=dict(self.labels),
            discards=dict(self.discards),
            excluded_known=dict(self.excluded_known),
            samples=self.samples,
            nt_samples=self.nt_samples,
            failures=self.failures,
            per_sub=dict(self.per_sub),
            inconclusive=self.inconclusive,
        )


def trim(spec, maxlen=12):
    """Shorten long lists for evidence samples."""
    if isinstance(spec, dict):
        return {k: trim(v, maxlen) for k, v in spec.items()}
    if isinstance(spec, (list, tuple)):
        if len(spec) > maxlen:
            return [trim(v, maxlen) for v in spec[:maxlen]] + ["...(%d more)" % (len(spec) - maxlen)]
        return [trim(v, maxlen) for v in spec]
    if isinstance(spec, float):
        return float("%.6g" % spec) if spec == spec and abs(spec) != float("inf") else str(spec)
    return spec


class Ctx:
    def __init__(self, pid, tier, seed, shard, nshards, kind="py", known=None):
        self.pid = pid
        self.tier = tier
        self.seed = seed
        self.shard = shard
        self.nshards = nshards
        self.kind = kind
        self.stats = Stats()
        self.known = known or []
        self.t0 = time.time()
        self._bt = None

    @property
    def bt(self):
        if self._bt is None:
            from . import build

            self._bt = build.load_bt(self.kind)
        return self._bt

    def n(self, quick, thorough):
        """per-shard example budget from total budgets"""
        tot = quick if self.tier == "quick" else thorough
        return max(1, (tot + self.nshards - 1) // self.nshards)


def run_sub(ctx, sub, strategy, case_fn, max_examples, known_match=None, shrink_budget_s=None):
    """Drive case_fn(spec) with Hypothesis.

    case_fn returns dict(nontrivial=bool, labels=[..]) (or None), raises Violation on a
    property violation, Discard when outside the quantifier.  Any other exception is a harness
    error unless case_fn converts it.
    known_match(spec, violation) -> finding id or None: matching failures are counted and the
    search continues.
    """
    st = ctx.stats
    only = os.environ.get("VERIF_SUBS")  # development aid: run only the named sub-checks (never set by the registered commands)
    if only and sub not in only.split(","):
        return
    if shrink_budget_s is None:
        shrink_budget_s = 40 if ctx.tier == "quick" else 180
    state = {"best": None, "first_fail_t": None, "err": None}

    def wrapped(spec):
        if state["first_fail_t"] is not None and time.time() - state["first_fail_t"] > shrink_budget_s:
            return  # shrink budget exhausted: let Hypothesis finish quickly
        if state["err"] is not None:
            return
        st.evaluations += 1
        st.per_sub[sub] += 1
        import signal

        try:
            signal.signal(signal.SIGALRM, _alarm)
            signal.alarm(CASE_TIMEOUT_S)
        except ValueError:
            pass
        try:
            try:
                res = case_fn(spec)
            finally:
                try:
                    signal.alarm(0)
                except ValueError:
                    pass
        except CaseTimeout:
            # never a verdict: reported as inconclusive (exit 2) with the spec, so that a hang cannot pass silently
            st.inconclusive.append({"sub": sub, "reason": "case exceeded %d s" % CASE_TIMEOUT_S, "spec": spec})
            state["timeout"] = True
            return
        except Discard as d:
            st.discards[sub + ":" + d.reason] += 1
            return
        except Violation as v:
            fid = known_match(spec, v) if known_match else None
            if fid is not None:
                st.excluded_known[fid] += 1
                return
            size = len(canon(spec))
            if state["best"] is None or size <= state["best"][0]:
                state["best"] = (size, spec, v.msg, v.signature)
            if state["first_fail_t"] is None:
                state["first_fail_t"] = time.time()
            raise
        except (HarnessError, hypothesis.errors.HypothesisException):
            raise
        except Exception as e:  # harness bug: stop this sub, report exit 2
            state["err"] = "%s: %s\n%s" % (type(e).__name__, e, traceback.format_exc()[-3000:])
            state["err_spec"] = spec
            return
        res = res or {}
        if len(st.samples) < 2:
            st.samples.append({"sub": sub, "case": trim(spec)})
        if res.get("nontrivial"):
            st.nontrivial.add(spec_hash(spec))
            if len(st.nt_samples) < 2 or (len(st.nt_samples) < 4 and not any(s["sub"] == sub for s in st.nt_samples)):
                st.nt_samples.append({"sub": sub, "case": trim(spec)})
        for lab in res.get("labels", ()):
            st.labels[sub + ":" + lab] += 1

    seed_val = (ctx.seed * 1000 + ctx.shard) * 131 + (int(hashlib.md5(sub.encode()).hexdigest()[:6], 16) % 1000)
    test = given(strategy)(wrapped)
    test = hypothesis.seed(seed_val)(test)
    test = settings(
        max_examples=max_examples,
        database=None,
        deadline=None,
        derandomize=False,
        report_multiple_bugs=False,
        suppress_health_check=list(HealthCheck),
        phases=[Phase.generate, Phase.shrink],
        print_blob=False,
    )(test)
    try:
        test()
    except BaseException as e:  # noqa
        if isinstance(e, KeyboardInterrupt):
            raise
        if state["best"] is None and state["err"] is None:
            state["err"] = "%s: %s\n%s" % (type(e).__name__, e, traceback.format_exc()[-3000:])
    if state["err"] is not None:
        raise HarnessError("sub %s: %s\nspec=%s" % (sub, state["err"], canon(state.get("err_spec"))[:3000]))
    if state["best"] is not None:
        _, spec, msg, sig = state["best"]
        st.failures.append({"sub": sub, "message": msg, "signature": sig, "spec": spec})


def out_dir():
    """where evidence and new replay files go: /verif, unless VERIF_OUT redirects (sensitivity runs against scratch copies)"""
    return os.environ.get("VERIF_OUT") or VERIF


def write_replay(pid, failure):
    d = os.path.join(out_dir(), "replays", pid)
    os.makedirs(d, exist_ok=True)
    body = {"property": pid, "sub": failure["sub"], "message": failure["message"], "signature": failure["signature"], "spec": failure["spec"]}
    h = spec_hash({"sub": failure["sub"], "spec": failure["spec"]})
    p = os.path.join(d, "fail_%s.json" % h)
    with open(p, "w") as fh:
        json.dump(body, fh, indent=1, sort_keys=True, default=str)
    return os.path.relpath(p, out_dir()) if out_dir() == VERIF else p
