"""CLI: ./check <ID> [--tier quick|thorough] [--seed N] [--replay path] [--shards N]

exit 0: property held on everything explored (KNOWN-FINDING lines possible)
exit 1: VIOLATION property=<id> replay=<path>
exit 2: HARNESS-ERROR (never a verdict)
"""
import argparse
import glob
import importlib
import json
import multiprocessing as mp
import os
import sys
import time
import traceback
from collections import Counter

VERIF = os.path.dirname(os.path.dirname(os.path.abspath(__file__)))


def load_known(pid):
    p = os.path.join(VERIF, "known_findings.json")
    if not os.path.exists(p):
        return []
    with open(p) as fh:
        kf = json.load(fh)
    return [f for f in kf.get("open", []) if f["property"] == pid]


def _mod(pid):
    return importlib.import_module("vlib.props.%s" % pid.lower())


def _worker(args):
    pid, tier, seed, shard, nshards, kind, mode, payload = args
    from . import harness

    try:
        mod = _mod(pid)
        ctx = harness.Ctx(pid, tier, seed, shard, nshards, kind=kind, known=load_known(pid))
        if mode == "shard":
            mod.shard(ctx)
            return {"ok": True, "stats": ctx.stats.to_dict()}
        elif mode == "exhaustive":
            res = mod.exhaustive(ctx, payload)
            return {"ok": True, "stats": ctx.stats.to_dict(), "ex": res}
        elif mode == "replay":
            out = []
            for item in payload:
                sub, spec = item["sub"], item["spec"]
                try:
                    mod.SUBS[sub](ctx, spec)
                    out.append({"failed": False})
                except harness.Violation as v:
                    out.append({"failed": True, "message": v.msg, "signature": v.signature})
                except harness.Discard as d:
                    out.append({"failed": False, "discard": d.reason})
            return {"ok": True, "replays": out}
    except BaseException as e:  # noqa
        return {"ok": False, "error": "%s: %s\n%s" % (type(e).__name__, e, traceback.format_exc()[-6000:])}


def main(argv=None):
    ap = argparse.ArgumentParser()
    ap.add_argument("pid")
    ap.add_argument("--tier", default=os.environ.get("VERIF_TIER", "quick"))
    ap.add_argument("--seed", type=int, default=int(os.environ.get("VERIF_SEED", "1") or 1))
    ap.add_argument("--replay", default=None)
    ap.add_argument("--shards", type=int, default=int(os.environ.get("VERIF_SHARDS", "16")))
    ap.add_argument("--build", default=None, help="py|cy|both (default: property module decides)")
    a = ap.parse_args(argv)
    pid = a.pid.upper()
    tier = a.tier if a.tier in ("quick", "thorough") else "quick"
    t0 = time.time()
    try:
        rc = _run(pid, tier, a.seed, a.replay, a.shards, a.build, t0)
    except Exception as e:  # noqa
        print("HARNESS-ERROR property=%s %s: %s" % (pid, type(e).__name__, e))
        traceback.print_exc()
        rc = 2
    sys.stdout.flush()
    return rc


def _pool_map(jobs, nproc):
    ctx = mp.get_context("fork")
    with ctx.Pool(min(nproc, max(1, len(jobs))), maxtasksperchild=1) as pool:
        return pool.map(_worker, jobs, chunksize=1)


def _run(pid, tier, seed, replay, nshards, build_arg, t0):
    from . import build

    mod = _mod(pid)
    kinds = getattr(mod, "BUILDS", {"quick": ["py"], "thorough": ["py"]})[tier]
    if build_arg:
        kinds = {"py": ["py"], "cy": ["cy"], "both": ["py", "cy"]}[build_arg]
    for k in kinds:
        build.ensure_build(k)
    known = load_known(pid)

    # ---- explicit replay -------------------------------------------------
    if replay:
        with open(replay if os.path.isabs(replay) else os.path.join(VERIF, replay)) as fh:
            body = json.load(fh)
        rc = 0
        for k in kinds:
            r = _pool_map([(pid, tier, seed, 0, 1, k, "replay", [body])], 1)[0]
            if not r["ok"]:
                print("HARNESS-ERROR property=%s replay: %s" % (pid, r["error"]))
                return 2
            o = r["replays"][0]
            if o["failed"]:
                print("replay[%s] fails: %s" % (k, o["message"]))
                print("VIOLATION property=%s replay=%s" % (pid, replay))
                rc = 1
            else:
                print("replay[%s] passes%s" % (k, " (discarded: %s)" % o["discard"] if "discard" in o else ""))
        return rc

    violations = []  # (message, replay path)
    known_lines = []
    # ---- regression replays + known-finding witnesses ---------------------
    regs = sorted(glob.glob(os.path.join(VERIF, "replays", pid, "reg_*.json")))
    items, meta = [], []
    for p in regs:
        with open(p) as fh:
            b = json.load(fh)
        items.append({"sub": b["sub"], "spec": b["spec"]})
        meta.append(("reg", os.path.relpath(p, VERIF)))
    for f in known:
        if f.get("witness") is not None:
            items.append({"sub": f["sub"], "spec": f["witness"]})
            meta.append(("known", f))
    n_reg = 0
    if items:
        r = _pool_map([(pid, tier, seed, 0, 1, kinds[0], "replay", items)], 1)[0]
        if not r["ok"]:
            print("HARNESS-ERROR property=%s replays: %s" % (pid, r["error"]))
            return 2
        for (kind_, m), o in zip(meta, r["replays"]):
            if kind_ == "reg":
                n_reg += 1
                if o["failed"]:
                    print("regression replay fails: %s: %s" % (m, o["message"]))
                    violations.append((o["message"], m))
            else:
                if o["failed"]:
                    known_lines.append("KNOWN-FINDING: property=%s %s: %s" % (pid, m["id"], m["what"]))
                else:
                    print("note: witness of known finding %s no longer fails" % m["id"])

    # ---- generated search --------------------------------------------------
    jobs = []
    for k in kinds:
        for s in range(nshards):
            jobs.append((pid, tier, seed, s, nshards, k, "shard", None))
    results = _pool_map(jobs, 16)
    ex_results = None
    if hasattr(mod, "exhaustive_jobs"):
        ej = mod.exhaustive_jobs(tier, seed)
        exr = _pool_map([(pid, tier, seed, i, len(ej), kinds[0], "exhaustive", p) for i, p in enumerate(ej)], 16)
        results = results + exr
        ex_results = [r.get("ex") for r in exr if r["ok"]]

    errs = [r["error"] for r in results if not r["ok"]]
    if errs:
        print("HARNESS-ERROR property=%s %d worker(s) failed; first:\n%s" % (pid, len(errs), errs[0]))
        return 2

    ev = 0
    nt = set()
    labels, discards, excl, per_sub = Counter(), Counter(), Counter(), Counter()
    samples, nt_samples, failures, inconclusive = [], [], [], []
    for r in results:
        s = r["stats"]
        ev += s["evaluations"]
        nt.update(s["nontrivial"])
        labels.update(s["labels"])
        discards.update(s["discards"])
        excl.update(s["excluded_known"])
        per_sub.update(s["per_sub"])
        samples += s["samples"]
        nt_samples += s["nt_samples"]
        failures += s["failures"]
        inconclusive += s["inconclusive"]

    from . import harness

    seen_sig = set()
    for f in failures:
        key = (f["sub"], f["signature"])
        if key in seen_sig:
            continue
        seen_sig.add(key)
        # keep the smallest spec per signature
        cands = [g for g in failures if (g["sub"], g["signature"]) == key]
        best = min(cands, key=lambda g: len(harness.canon(g["spec"])))
        path = harness.write_replay(pid, best)
        print("violation[%s]: %s" % (best["sub"], best["message"][:600]))
        violations.append((best["message"], path))

    # samples: a few, at least one non-trivial
    subs_seen, out_samples = set(), []
    for s in nt_samples + samples:
        if s["sub"] not in subs_seen or len(out_samples) < 3:
            out_samples.append(s)
            subs_seen.add(s["sub"])
        if len(out_samples) >= 8:
            break

    # generator self-check floors
    floor_msgs = []
    for lab, (sub, frac) in getattr(mod, "FLOORS", {}).items():
        tot = per_sub.get(sub, 0)
        got = labels.get(sub + ":" + lab, 0)
        if tot >= 50 and got < frac * tot:
            floor_msgs.append("label %s:%s only %d/%d (< %.0f%%)" % (sub, lab, got, tot, frac * 100))

    coverage = {
        "evaluations": ev,
        "distinct_nontrivial": len(nt),
        "rule": getattr(mod, "RULE", ""),
        "samples": out_samples,
        "per_sub": dict(per_sub),
        "labels": dict(sorted(labels.items())),
        "discarded": dict(discards),
        "excluded_known": dict(excl),
        "builds": kinds,
        "regression_replays": n_reg,
        "inconclusive": [{"sub": i_["sub"], "reason": i_["reason"]} for i_ in inconclusive],
        "shards": nshards,
    }
    if ex_results is not None:
        # every enumerated case is distinct by construction; its non-trivial ones are counted exactly by the enumerator
        coverage["distinct_nontrivial"] += sum(int(r.get("nontrivial", 0)) for r in ex_results if r)
        coverage["exhaustive_parts"] = mod.exhaustive_summary(ex_results)
        coverage["exhaustive"] = bool(coverage["exhaustive_parts"].get("complete", False))
    evidence = {
        "property_id": pid,
        "tier": tier,
        "seed": seed,
        "level": "exploration",
        "coverage": coverage,
        "assumptions": getattr(mod, "ASSUMPTIONS", []),
        "wall_s": round(time.time() - t0, 2),
        "violations": len(violations),
    }
    from .harness import out_dir

    os.makedirs(os.path.join(out_dir(), "evidence"), exist_ok=True)
    with open(os.path.join(out_dir(), "evidence", "%s.json" % pid), "w") as fh:
        json.dump(evidence, fh, indent=1, sort_keys=True, default=str)

    for line in known_lines:
        print(line)
    print(
        "%s tier=%s seed=%d builds=%s evaluations=%d distinct_nontrivial=%d discarded=%d excluded_known=%d wall=%.1fs"
        % (pid, tier, seed, ",".join(kinds), ev, coverage["distinct_nontrivial"], sum(discards.values()), sum(excl.values()), time.time() - t0)
    )
    if inconclusive:
        os.makedirs(os.path.join(out_dir(), "replays", pid), exist_ok=True)
        for n_, inc in enumerate(inconclusive[:5]):
            ip = os.path.join(out_dir(), "replays", pid, "timeout_%d.json" % n_)
            with open(ip, "w") as fh:
                json.dump({"property": pid, "sub": inc["sub"], "message": inc["reason"], "signature": "timeout", "spec": inc["spec"]}, fh, indent=1, sort_keys=True, default=str)
            print("INCONCLUSIVE property=%s %s: %s (spec: %s)" % (pid, inc["sub"], inc["reason"], ip))
        if not violations:
            print("HARNESS-ERROR property=%s %d case(s) exceeded the per-case time limit; not a verdict" % (pid, len(inconclusive)))
            return 2
    if floor_msgs:
        print("HARNESS-ERROR property=%s generator self-check: %s" % (pid, "; ".join(floor_msgs)))
        if not violations:
            return 2
    if violations:
        for msg, path in violations:
            print("VIOLATION property=%s replay=%s" % (pid, path))
        return 1
    return 0


if __name__ == "__main__":
    sys.exit(main())
