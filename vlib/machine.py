"""Direct-operation histories on a live tree + an independent reference accounting model.

A history spec is plain data:
  {"dates", "prices", "tree", "fee", "bidoffer", "integer", "capital", "ops": [[op, args...], ...]}
Amount-like arguments are fractions of spec["capital"], so a spec is self-contained and shrinks well.
The model never sizes a security trade: executed quantities are taken from a spy on
SecurityBase.transact and only their *consequences* are modelled (sizing is C05/C06's job).
"""
import math

import numpy as np
import pandas as pd
from hypothesis import strategies as st

from . import gen, interp
from .harness import Discard, Violation


def close(a, b, scale=1.0, rel=1e-9, ab=1e-7):
    if a is None or b is None:
        return a is b
    if isinstance(a, float) and math.isnan(a):
        return isinstance(b, float) and math.isnan(b)
    return abs(a - b) <= rel * max(abs(a), abs(b), abs(scale)) + ab


class MNode(object):
    """model node"""

    def __init__(self, name, parent, issec, mult=1.0, ticker=None):
        self.name = name
        self.parent = parent
        self.issec = issec
        self.mult = float(mult)
        self.ticker = ticker
        self.children = {}  # name -> MNode (declared; securities may be 'not yet created' in bt)
        self.cash = 0.0
        self.pos = 0.0
        # per-date accumulators
        self.flows = 0.0
        self.fees = 0.0
        self.outlay = 0.0
        self.bo = 0.0
        self.nonflow = 0.0  # driver-made non-flow adjustments (strategies)
        self.direct_flow = 0.0  # driver-made flow adjustments directly on this node
        self.last_value = 0.0
        self.last_price = 100.0
        self.price = 100.0

    @property
    def path(self):
        return self.name if self.parent is None else self.parent.path + ">" + self.name

    def strategies(self):
        if not self.issec:
            yield self
            for c in self.children.values():
                yield from c.strategies()

    def securities(self):
        for c in self.children.values():
            if c.issec:
                yield c
            else:
                yield from c.securities()


class Model(object):
    def __init__(self, spec):
        self.spec = spec
        self.prices = spec["prices"]
        self.spread = spec.get("bidoffer") or {}
        self.fee = interp.Fee(spec.get("fee"))
        self.i = 0
        self.hist = []  # per finished date: accumulators by path
        self.root = self._build(spec["tree"], None)
        self.by_path = {}
        self._index(self.root)

    def _build(self, n, parent):
        if isinstance(n, str):
            return MNode(n, parent, True, 1.0, n)
        if "sec" in n:
            return MNode(n["sec"], parent, True, n.get("mult", 1), n["sec"])
        node = MNode(n["name"], parent, False)
        # who charges commissions: the whole tree (set_commissions on the assembled root) or only the sub-strategies that had their own
        # commission function installed before they were composed into the tree (nobody calls set_commissions on the root then)
        node.charges = (parent is not None) or self.spec.get("fee_scope", "tree") == "tree"
        if n.get("spawn") and parent is not None:
            node.charges = parent.charges  # created mid-history with parent=: trades on its parent's terms
        node.exists = not n.get("spawn", False)  # a sub-strategy created dynamically mid-history (parent=, setup_from_parent)
        node.spec = n
        for c in n.get("children") or []:
            m = self._build(c, node)
            node.children[m.name] = m
        return node

    def _index(self, n):
        self.by_path[n.path] = n
        for c in n.children.values():
            self._index(c)

    # ---- valuation
    def px(self, sec, i=None):
        i = self.i if i is None else i
        v = self.prices[sec.ticker][i]
        return float("nan") if v is None else float(v)

    def value(self, n):
        if n.issec:
            if n.pos == 0:
                return 0.0
            return n.pos * self.px(n) * n.mult
        return n.cash + sum(self.value(c) for c in n.children.values())

    def weight(self, c):
        pv = self.value(c.parent)
        if abs(pv) < 1e-16:
            return 0.0
        return self.value(c) / pv

    # ---- transitions
    def adjust(self, s, amt, flow):
        s.cash += amt
        if flow:
            s.flows += amt
            s.direct_flow += amt
        else:
            s.nonflow += amt

    def transfer(self, s, amt):
        """one StrategyBase.allocate(amt) call on strategy s itself: parent -> s (root: net zero)"""
        if s.parent is not None:
            s.parent.cash -= amt
            s.cash += amt
            s.flows += amt

    def trade(self, sec, q, px=None):
        p = self.px(sec)
        m = sec.mult
        if px is None:
            sp = self.spread.get(sec.ticker)
            s = 0.0 if sp is None else float(sp[self.i])
            bo = abs(q) * 0.5 * s * m
            fee = self.fee.value(q, p * m) if sec.parent.charges else 0.0
        else:
            bo = q * (px - p) * m
            fee = self.fee.value(q, px * m) if sec.parent.charges else 0.0
        outlay = q * p * m + bo
        sec.pos += q
        sec.outlay += outlay
        sec.bo += bo
        sec.parent.cash -= outlay + fee
        sec.parent.fees += fee
        return outlay, fee, bo

    def snapshot_accumulators(self):
        return {p: {"nonflow": n.nonflow, "direct_flow": n.direct_flow, "flows": n.flows, "fees": n.fees, "outlay": n.outlay, "bo": n.bo} for p, n in self.by_path.items()}

    def next_date(self):
        self.hist.append(self.snapshot_accumulators())
        for s in self.root.strategies():
            s.last_value = self.value(s)
            s.last_price = s.price
        self.i += 1
        for n in self.by_path.values():
            n.flows = n.fees = n.outlay = n.bo = n.nonflow = n.direct_flow = 0.0

    def refresh_price(self):
        r = self.root
        bottom = r.last_value + r.flows
        v = self.value(r)
        if abs(bottom) < 1e-16:
            if abs(v) < 1e-16:
                r.price = r.last_price
            else:
                raise Discard("zero base")
        else:
            r.price = r.last_price * (v / bottom)


# --------------------------------------------------------------------------- live run
class TreeRun(object):
    """Executes a history spec op by op on a live bt tree, keeping the model in step."""

    def __init__(self, bt, spec, with_model=True):
        self.bt = bt
        self.spec = spec
        self.dates = interp.mk_dates(spec["dates"])
        self.data = interp.mk_data(spec)
        self.fee = interp.Fee(spec.get("fee"))
        self.fee.record = True
        self.root = interp.mk_node(bt, spec["tree"], spec, {"__fee__": self.fee})
        kw = {}
        if spec.get("bidoffer") is not None:
            kw["bidoffer"] = interp.mk_frame(spec["dates"], spec["bidoffer"])
        self.root.setup(self.data, **kw)
        self.root.use_integer_positions(bool(spec["integer"]))
        if self.fee.spec["kind"] != "none" and spec.get("fee_scope", "tree") == "tree":
            self.root.set_commissions(self.fee)
        self.i = 0
        self.trades = []  # trades of the current op
        self.events = []  # ordered: strategy-level allocate calls and executed trades of the current op
        self.all_trades = 0
        self.model = Model(spec) if with_model else None
        self._install_spy()
        self.root.adjust(spec["capital"])
        self.root.update(self.dates[0])
        if self.model:
            self.model.adjust(self.model.root, spec["capital"], True)
        self.skipped = 0
        self.executed = []
        self.defer = False  # issue the next operation with update=False (the caller then owes the closing update)

    def __deepcopy__(self, memo):
        return None

    # spy on every SecurityBase.transact of *this* tree (instance check keeps paper copies out)
    def _install_spy(self):
        bt = self.bt
        run = self
        cls = bt.core.SecurityBase
        if not hasattr(cls, "_verif_orig_transact"):
            cls._verif_orig_transact = cls.transact

            def transact(self_, q, update=True, update_self=True, price=None):
                r = getattr(self_.root, "_verif_run", None)
                if r is not None and not (abs(q) < 1e-16 or (isinstance(q, float) and math.isnan(q))):
                    r._on_trade_before(self_, q, price)
                    out = cls._verif_orig_transact(self_, q, update, update_self, price)
                    r._on_trade_after(self_, q, price)
                    return out
                return cls._verif_orig_transact(self_, q, update, update_self, price)

            cls.transact = transact
        scls = bt.core.StrategyBase
        if not hasattr(scls, "_verif_orig_allocate"):
            scls._verif_orig_allocate = scls.allocate

            def allocate(self_, amount, child=None, update=True):
                r = getattr(self_.root, "_verif_run", None)
                if r is not None and child is None:
                    r.events.append({"kind": "alloc", "node": self_, "amount": float(amount), "weights": {c.name: c._weight for c in self_._childrenv}})
                return scls._verif_orig_allocate(self_, amount, child, update)

            scls.allocate = allocate
        self.root._verif_run = run

    def _on_trade_before(self, sec, q, price):
        self._cap_before = sec.parent.capital
        self._fee_calls_before = len(self.fee.calls)

    def _on_trade_after(self, sec, q, price):
        t = {"kind": "trade", "sec": sec, "q": float(q), "px": price, "dcap": sec.parent.capital - self._cap_before, "fee_calls": self.fee.calls[self._fee_calls_before :]}
        self.trades.append(t)
        self.events.append(t)
        self.all_trades += 1

    # ---- helpers
    def node(self, path):
        n = self.root
        parts = path.split(">")
        for p in parts[1:]:
            n = n.children[p]
        return n

    def now(self):
        return self.dates[self.i]

    def price_ok(self, spath, child):
        m = self.model.by_path[spath].children[child] if self.model else None
        if m is not None and not m.issec:
            return True
        v = self.spec["prices"][child][self.i]
        return v is not None and v > 0

    def subtree_prices_ok(self, mnode):
        """every security with a position (or that may receive a trade) under mnode has a usable price"""
        for s in mnode.securities():
            if any(not getattr(a_, "exists", True) for a_ in self._ancestors(s)):
                continue
            v = self.spec["prices"][s.ticker][self.i]
            if v is None or v <= 0:
                return False
        return True

    @staticmethod
    def _ancestors(ms):
        out = []
        while ms.parent is not None:
            ms = ms.parent
            out.append(ms)
        return out

    def bottom_ok(self, ms):
        """ms and its ancestors have a non-zero return base (a P&L on a zero base is refused by bt by design)"""
        cap = abs(self.spec["capital"])
        while ms is not None:
            if abs(ms.last_value + ms.flows) <= 1e-7 * cap:
                return False
            ms = ms.parent
        return True

    def conditioned(self, ms):
        """strategy value is not a tiny difference of large parts (weights = part/value would explode numerically)"""
        M = self.model
        big = max([abs(ms.cash)] + [abs(M.value(c)) for c in ms.children.values()] + [0.0])
        if big > 0 and abs(M.value(ms)) <= 1e-6 * big:
            return False
        return all(self.conditioned(c) for c in ms.children.values() if not c.issec)

    # ---- one op; returns False if skipped (precondition not met at this point of the history)
    def step(self, op):
        kind = op[0]
        cap = self.spec["capital"]
        self.trades = []
        self.events = []
        self.expect = None  # (strategy path, amount) expected as the first strategy-level allocate of this op
        M = self.model
        root = self.root
        kw = {"update": False} if self.defer else {}
        if kind == "next":
            if self.i + 1 >= len(self.dates):
                return False
            # held securities need a price on the next date (well-formed input)
            for s in M.root.securities():
                if s.pos != 0 and self.spec["prices"][s.ticker][self.i + 1] is None:
                    return False
            self.i += 1
            M.next_date()
            root.update(self.dates[self.i])
            return True
        if kind == "update":
            root.update(self.now())
            return True
        spath = op[1]
        ms = M.by_path[spath]
        if not getattr(ms, "exists", True) or any(not getattr(a_, "exists", True) for a_ in self._ancestors(ms)):
            return False  # not spawned yet
        s = self.node(spath)
        if kind == "spawn":
            mc = ms.children[op[2]]
            if getattr(mc, "exists", True):
                return False
            bt = self.bt
            kids = [c if isinstance(c, str) else interp.mk_node(bt, c, self.spec, {}) for c in mc.spec.get("children") or []]
            new = bt.core.StrategyBase(mc.name, children=kids or None, parent=s)
            new.setup_from_parent()
            # nothing else: like the integer-positions flag, the commission function of the tree it joins is the new strategy's too
            mc.exists = True
            # the creator brings the new strategy up to date (as the repository's dynamic-strategy tests do) - unless a refresh of
            # the whole tree is pending anyway, which the next read performs: creating a node does not change what is pending
            if not root.stale:
                new.update(s.now)
            return True
        if kind == "adjust":
            amt = op[2] * cap
            flow = bool(op[3])
            if not flow and not self.bottom_ok(ms):
                return False
            if flow and not self.bottom_ok(ms.parent):
                return False
            s.adjust(amt, flow=flow, **kw)
            M.adjust(ms, amt, flow)
            return True
        if kind == "alloc":
            if not self.subtree_prices_ok(ms) or not self.conditioned(ms):
                return False
            amt = op[2] * cap
            self.expect = (ms.path, amt)
            s.allocate(amt, **kw)
            return True
        if kind == "flatten":
            if not self.subtree_prices_ok(ms):
                return False
            s.flatten()
            return True
        child = op[2]
        mc = ms.children[child]
        if not mc.issec and not getattr(mc, "exists", True):
            return False  # a sub-strategy that has not been spawned yet
        if mc.issec:
            if not self.price_ok(spath, child):
                return False
            if not self.bottom_ok(ms):
                return False
        elif not self.subtree_prices_ok(mc) or not self.conditioned(mc) or not self.conditioned(ms):
            return False
        if kind == "alloc_child":
            amt = op[3] * cap
            if not mc.issec:
                self.expect = (mc.path, amt)
            s.allocate(amt, child=child, **kw)
            return True
        if kind == "transact":
            if not mc.issec:
                return False
            p = self.spec["prices"][child][self.i] * mc.mult
            q = op[3] * cap / p
            if self.spec["integer"]:
                q = float(math.floor(q))
            if q == 0:
                return False
            px = None
            if len(op) > 4 and op[4] is not None:
                if self.spec.get("bidoffer") is None:
                    return False
                px = self.spec["prices"][child][self.i] * op[4]
                s._create_child_if_needed(child) if child not in s.children else None
                s.children[child].transact(q, price=px, **kw)
            else:
                s.transact(q, child=child, **kw)
            return True
        if kind == "transact_seq":
            # several transactions back to back with no read in between (allowed: each only marks the tree stale)
            if not mc.issec:
                return False
            p = self.spec["prices"][child][self.i] * mc.mult
            qs = []
            for x in op[3]:
                q = x * cap / p
                if self.spec["integer"]:
                    q = float(math.floor(q))
                if q != 0:
                    qs.append(q)
            if not qs:
                return False
            px_mult = op[4] if len(op) > 4 else None
            if px_mult is not None and self.spec.get("bidoffer") is None:
                px_mult = None
            if child not in s.children:
                s._create_child_if_needed(child)
            sec = s.children[child]
            for q in qs:
                if px_mult is not None:
                    sec.transact(q, price=self.spec["prices"][child][self.i] * px_mult, **kw)
                elif self.defer:
                    sec.transact(q, update=False, update_self=False)
                else:
                    sec.transact(q)
            return True
        if kind == "rebalance":
            if not self.conditioned(ms):
                return False  # rebalance sizes by the child's current weight, which is meaningless when the strategy's value is a rounding residue
            w = op[3]
            base = None
            if len(op) > 4 and op[4] is not None:
                base = op[4] * cap
            if not mc.issec and abs(w) >= 1e-16:
                b = M.value(ms) if base is None else base
                self.expect = (mc.path, (w - M.weight(mc)) * b)
            if base is None:
                s.rebalance(w, child, **kw)
            else:
                s.rebalance(w, child, base=base, **kw)
            return True
        if kind == "close":
            if child not in s.children:
                return False
            s.close(child, **kw)
            return True
        raise ValueError(kind)

    def apply_trades_to_model(self):
        """feed the op's ordered events (strategy-level allocate calls, executed trades) into the model"""
        M = self.model
        out = []
        first_alloc = True
        cap = abs(self.spec["capital"])
        for e in self.events:
            if e["kind"] == "alloc":
                mn = M.by_path[e["node"].full_name]
                if first_alloc and self.expect is not None:
                    first_alloc = False
                    path, amt = self.expect
                    if mn.path != path or not close(e["amount"], amt, cap, ab=1e-9 * cap):
                        raise Violation("operation should move %r into %s but bt moved %r into %s" % (amt, path, e["amount"], mn.path), signature="alloc-amount")
                M.transfer(mn, e["amount"])
            else:
                msec = M.by_path[e["sec"].full_name]
                outlay, fee, bo = M.trade(msec, e["q"], e["px"])
                out.append((e, msec, outlay, fee, bo))
        return out


# --------------------------------------------------------------------------- invariant groups
def check_trades(run, applied):
    """C07 per-trade: parent cash moves by exactly outlay+fee; commission evaluated once at (q, p*m)"""
    for t, msec, outlay, fee, bo in applied:
        scale = max(abs(outlay), abs(fee), 1.0)
        if not close(-t["dcap"], outlay + fee, scale, ab=1e-9 * max(1.0, abs(run.spec["capital"]))):
            raise Violation(
                "trade q=%r in %s moved parent cash by %r, expected -(outlay %r + fee %r)" % (t["q"], msec.path, t["dcap"], outlay, fee), signature="trade-cash"
            )
        if run.fee.spec["kind"] != "none" and not msec.parent.charges:
            if t["fee_calls"]:
                raise Violation("commission function evaluated for a trade in %s, whose strategy never had one installed" % msec.path, signature="fee-calls")
        elif run.fee.spec["kind"] != "none":
            calls = t["fee_calls"]
            p = run.model.px(msec)
            pm = (p if t["px"] is None else t["px"]) * msec.mult
            if len(calls) != 1:
                raise Violation("commission function evaluated %d times for one executed trade in %s" % (len(calls), msec.path), signature="fee-calls")
            cq, cp, cv = calls[0]
            if not (close(cq, t["q"], 1.0, ab=1e-12) and close(cp, pm, pm, ab=1e-12)):
                raise Violation("commission evaluated at (q=%r, p=%r), expected (%r, %r) in %s" % (cq, cp, t["q"], pm, msec.path), signature="fee-args")


def check_balance(run, tag=""):
    """C01 balance sheet on the live tree + agreement with the model"""
    bt = run.bt
    M = run.model
    cap = abs(run.spec["capital"])
    for m in run.root.members:
        mm = M.by_path.get(m.full_name)
        if mm is None:
            raise Violation("node %s exists in bt but not in the model" % m.full_name, signature="unknown-node")
        if isinstance(m, bt.core.StrategyBase):
            v = m.value
            tot = m.capital
            for c in m.children.values():
                tot += c.value
            if not close(v, tot, cap):
                raise Violation("%s: strategy %s value %r != cash %r + children %r" % (tag, m.full_name, v, m.capital, tot - m.capital), signature="value!=cash+children")
            if not close(m.capital, mm.cash, cap):
                raise Violation("%s: strategy %s cash %r != model %r" % (tag, m.full_name, m.capital, mm.cash), signature="cash!=model")
            if not close(v, M.value(mm), cap):
                raise Violation("%s: strategy %s value %r != model %r" % (tag, m.full_name, v, M.value(mm)), signature="value!=model")
            for c in m.children.values():
                w = c.weight
                exp = (c.value / v) if abs(v) >= 1e-16 else 0.0
                if not close(w, exp, 1.0, ab=1e-9):
                    raise Violation("%s: child %s weight %r != value/parent value %r" % (tag, c.full_name, w, exp), signature="weight")
            if abs(v) >= 1e-16 and m.children:
                ws = sum(c.weight for c in m.children.values()) + m.capital / v
                if not close(ws, 1.0, 1.0, ab=1e-9 * max(1.0, sum(abs(c.weight) for c in m.children.values()))):
                    raise Violation("%s: weights + cash fraction of %s sum to %r" % (tag, m.full_name, ws), signature="weights-sum")
        else:
            if not close(m.position, mm.pos, max(1.0, abs(mm.pos)), ab=1e-9):
                raise Violation("%s: security %s position %r != model %r" % (tag, m.full_name, m.position, mm.pos), signature="pos!=model")
            p = M.px(mm)
            exp = 0.0 if mm.pos == 0 else mm.pos * p * mm.mult
            if not close(m.value, exp, cap):
                raise Violation("%s: security %s value %r != position x price x multiplier %r" % (tag, m.full_name, m.value, exp), signature="sec-value")
            if m.position != 0:
                pr = m.price
                if not close(pr, p, p, ab=0.0):
                    raise Violation("%s: security %s price %r != data %r" % (tag, m.full_name, pr, p), signature="sec-price")


def check_rows(run, tag=""):
    """C01: rows recorded for the current date equal the current state"""
    bt = run.bt
    cap = abs(run.spec["capital"])
    for m in run.root.members:
        if isinstance(m, bt.core.StrategyBase):
            pairs = [("values", m.value), ("cash", m.capital), ("notional_values", m.notional_value), ("prices", m.price)]
        else:
            pairs = [("values", m.value), ("positions", m.position), ("notional_values", m.notional_value)]
        for nm, cur in pairs:
            ser = getattr(m, nm)
            if run.now() not in ser.index:
                raise Violation("%s: %s.%s has no row for the current date" % (tag, m.full_name, nm), signature="row-index")
            got = float(ser.loc[run.now()])
            if not close(got, float(cur), cap, ab=1e-9):
                raise Violation("%s: %s.%s row %r != current %r" % (tag, m.full_name, nm, got, float(cur)), signature="row!=state:" + nm)


def check_accumulators(run, tag=""):
    """C07/C03: per-date recorded fees/flows/outlays/bidoffer equal the model's accumulators"""
    bt = run.bt
    M = run.model
    cap = abs(run.spec["capital"])
    for m in run.root.members:
        mm = M.by_path[m.full_name]
        if isinstance(m, bt.core.StrategyBase):
            f = float(m.fees.iloc[-1])
            if not close(f, mm.fees, max(1.0, mm.fees), ab=1e-9):
                raise Violation("%s: %s fees row %r != sum of commissions of its own securities' executed trades %r" % (tag, m.full_name, f, mm.fees), signature="fees-row")
            fl = float(m.flows.iloc[-1])
            if not close(fl, mm.flows, cap, ab=1e-9):
                raise Violation("%s: %s flows row %r != model %r" % (tag, m.full_name, fl, mm.flows), signature="flows-row")
        else:
            o = float(m.outlays.iloc[-1])
            if not close(o, mm.outlay, cap, ab=1e-9):
                raise Violation("%s: %s outlays row %r != model %r" % (tag, m.full_name, o, mm.outlay), signature="outlay-row")
            if m._bidoffer_set:
                b = float(m.bidoffers_paid.iloc[-1])
                if not close(b, mm.bo, max(1.0, abs(mm.bo)), ab=1e-9):
                    raise Violation("%s: %s bidoffers_paid row %r != model %r" % (tag, m.full_name, b, mm.bo), signature="bo-row")


def check_price(run, tag=""):
    """C03: root index follows the recurrence with the model's own accumulators"""
    M = run.model
    M.refresh_price()
    p = run.root.price
    if not close(p, M.root.price, M.root.price, rel=1e-9, ab=1e-9):
        r = M.root
        raise Violation(
            "%s: root price %r != last_price %r * value %r / (last_value %r + flows %r) = %r" % (tag, p, r.last_price, M.value(r), r.last_value, r.flows, r.price), signature="price-recurrence"
        )


# --------------------------------------------------------------------------- generators
@st.composite
def tree_spec(draw, tickers, depth=0, name="root", allow_mult=True):
    kids = []
    own = draw(st.lists(st.sampled_from(tickers), min_size=1 if depth > 0 else 0, max_size=len(tickers), unique=True))
    for t in own:
        kids.append(draw(gen.sec_child(t, allow_mult)))
    nsub = draw(st.sampled_from([0, 0, 1, 1, 2])) if depth < 2 else 0
    if depth == 0 and not own and nsub == 0:
        nsub = 1
    for i in range(nsub):
        kids.append(draw(tree_spec(tickers, depth + 1, "%s%d" % ("s" if depth == 0 else "t", i + 1), allow_mult)))
    order = draw(st.permutations(list(range(len(kids))))) if len(kids) > 1 else list(range(len(kids)))
    return {"name": name, "kind": "StrategyBase", "children": [kids[i] for i in order]}


def strategy_paths(tree, prefix=None):
    """[(path, [child names...], {child: is_strategy})]"""
    out = []
    path = tree["name"] if prefix is None else prefix + ">" + tree["name"]
    kids = {}
    for c in tree.get("children") or []:
        if isinstance(c, str):
            kids[c] = False
        elif "sec" in c:
            kids[c["sec"]] = False
        else:
            kids[c["name"]] = True
    out.append((path, kids))
    for c in tree.get("children") or []:
        if isinstance(c, dict) and "name" in c:
            out += strategy_paths(c, path)
    return out


FRACS = st.one_of(
    st.sampled_from([0.1, -0.1, 0.25, -0.25, 0.05, 0.5, -0.05, 1e-4, -1e-4, 0.3333333]),
    st.floats(-0.4, 0.4, allow_nan=False),
)
WEIGHTS = st.one_of(st.sampled_from([0.0, 0.1, 0.25, 0.5, -0.2, 1.0, 0.3333]), st.floats(-0.5, 1.0, allow_nan=False))


@st.composite
def op_spec(draw, paths, has_bo):
    k = draw(
        st.sampled_from(
            ["next", "next", "next", "adjust", "adjust", "rootflow", "alloc", "alloc_child", "alloc_child", "alloc_child", "transact", "transact", "transact_seq", "rebalance", "rebalance", "close", "flatten", "update"]
        )
    )
    if k in ("next", "update"):
        return [k]
    if k == "rootflow":
        return ["adjust", paths[0][0], draw(FRACS), True]
    path, kids = draw(st.sampled_from(paths))
    if k == "adjust":
        return [k, path, draw(FRACS), draw(st.booleans())]
    if k == "alloc":
        return [k, path, draw(FRACS)]
    if k == "flatten":
        return [k, path]
    if not kids:
        return ["adjust", path, draw(FRACS), draw(st.booleans())]
    child = draw(st.sampled_from(sorted(kids)))
    if k == "alloc_child":
        return [k, path, child, draw(FRACS)]
    if k == "transact":
        px = None
        if has_bo and draw(st.integers(0, 2)) == 0:
            px = draw(st.sampled_from([1.0, 0.99, 1.01, 1.1, 0.9, 0.0]))  # 0.0: a transfer booked at a price of exactly zero
        return [k, path, child, draw(FRACS), px]
    if k == "transact_seq":
        x = draw(FRACS)
        seq = draw(st.sampled_from([[x, -x], [x, -x, x], [x, x, -2 * x], [x, draw(FRACS)], [x, -x, draw(FRACS), draw(FRACS)]]))
        px = draw(st.sampled_from([None, None, 1.01, 0.98, 0.0])) if has_bo else None
        return [k, path, child, seq, px]
    if k == "rebalance":
        base = draw(st.sampled_from([None, None, None, 0.5, 1.0]))
        return [k, path, child, draw(WEIGHTS), base]
    return ["close", path, child]


@st.composite
def wipeout_spec(draw):
    """a levered sub-strategy whose value lands on exactly zero while it still holds its position (margin wiped out by the price path,
    all amounts exact in binary floating point): its children's weights are zero then, and everything else keeps reconciling"""
    ds = draw(gen.dates(3, 6, kinds=("bday", "daily")))
    n = len(ds)
    k, p0 = draw(st.sampled_from([(2, 16.0), (2, 100.0), (4, 16.0), (4, 64.0), (4, 100.0)]))
    p1 = p0 * (1.0 - 1.0 / k)
    drop = draw(st.integers(1, n - 1))
    pa = [p0] * drop + [p1] * (n - drop)
    pb = draw(gen.price_path(n))
    f = draw(st.sampled_from([0.125, 0.25]))
    tree = {"name": "root", "kind": "StrategyBase", "children": [{"name": "s1", "kind": "StrategyBase", "children": ["a", "b"]}, "b"]}
    spec = {"dates": ds, "prices": {"a": pa, "b": pb}, "tree": tree, "integer": draw(st.booleans()), "capital": 1e6, "fee": {"kind": "none"}}
    paths = strategy_paths(tree)
    ops = [["alloc_child", "root", "s1", f], ["transact", "root>s1", "a", k * f, None]]
    if draw(st.booleans()):
        ops.append(["alloc_child", "root", "b", 0.1])
    ops += [["next"]] * drop
    tail = draw(st.lists(op_spec(paths, False), min_size=1, max_size=8))
    spec["ops"] = ops + tail
    spec["wipeout"] = True
    return spec


@st.composite
def zero_mark_spec(draw):
    """a position that is held while its price is quoted at exactly zero for two or more dates (a suspended name marked at nothing) and
    recovers afterwards: it is still a position - its value, its parent's value and the weights come back with the price"""
    lead, z, tail_n = draw(st.integers(1, 2)), draw(st.integers(2, 3)), draw(st.integers(1, 3))
    n = lead + z + tail_n
    ds = draw(gen.dates(n, n, kinds=("bday", "daily")))
    pa = draw(gen.price_path(n))
    for i in range(lead, lead + z):
        pa[i] = 0.0
    pb = draw(gen.price_path(n))
    nested = draw(st.booleans())
    tree = {"name": "root", "kind": "StrategyBase", "children": [{"name": "s1", "kind": "StrategyBase", "children": ["a", "b"]}, "b"]} if nested else {"name": "root", "kind": "StrategyBase", "children": ["a", "b"]}
    spec = {"dates": ds, "prices": {"a": pa, "b": pb}, "tree": tree, "integer": draw(st.booleans()), "capital": 1e6, "fee": draw(gen.fee_spec(min(x for x in pa + pb if x), kinds=("none", "none", "prop")))}
    paths = strategy_paths(tree)
    holder = "root>s1" if nested else "root"
    ops = ([["alloc_child", "root", "s1", 0.4]] if nested else []) + [["alloc_child", holder, "a", draw(st.sampled_from([0.1, 0.2]))]]
    if draw(st.booleans()):
        ops.append(["alloc_child", "root", "b", 0.1])
    # through the quiet dates (nothing but the clock moves, or operations on the other ticker), then into the recovery
    for _ in range(lead + z):
        ops.append(["next"])
        if draw(st.integers(0, 2)) == 0:
            ops.append(["alloc_child", "root", "b", draw(st.sampled_from([0.05, -0.05]))])
    spec["ops"] = ops + draw(st.lists(op_spec(paths, False), min_size=0, max_size=5))
    spec["zero_marks"] = True
    return spec


@st.composite
def pair_flatten_spec(draw):
    """a long and a short leg of exactly the same size in two names quoted at the same price (a pairs trade at parity, no costs), flattened
    together: the closes cancel in cash - and the tree has changed all the same (positions, children's values, weights, notional)"""
    n = draw(st.integers(3, 6))
    ds = draw(gen.dates(n, n, kinds=("bday", "daily")))
    pa = draw(gen.price_path(n))
    nested = draw(st.booleans())
    tree = {"name": "root", "kind": "StrategyBase", "children": [{"name": "s1", "kind": "StrategyBase", "children": ["a", "b"]}, "c"]} if nested else {"name": "root", "kind": "StrategyBase", "children": ["a", "b", "c"]}
    spec = {"dates": ds, "prices": {"a": list(pa), "b": list(pa), "c": draw(gen.price_path(n))}, "tree": tree, "integer": draw(st.booleans()), "capital": 1e6, "fee": {"kind": "none"}}
    paths = strategy_paths(tree)
    holder = "root>s1" if nested else "root"
    f = draw(st.sampled_from([0.1, 0.25, 0.05]))
    ops = ([["alloc_child", "root", "s1", 0.5]] if nested else []) + [["transact", holder, "a", f, None], ["transact", holder, "b", -f, None]]
    if draw(st.booleans()):
        ops.append(["alloc_child", "root", "c", 0.1])
    ops += [["next"]] * draw(st.integers(0, n - 2))
    ops.append(["flatten", holder])
    spec["ops"] = ops + draw(st.lists(op_spec(paths, False), min_size=0, max_size=6))
    spec["pair_flatten"] = True
    return spec


@st.composite
def exact_fee_spec(draw):
    """trades whose proceeds equal their commission exactly (a minimum ticket charge on a small residual lot: one unit sold at 10.0 under a
    flat fee of 10.0), so that the net cash movement of the trade is exactly zero while a fee is still due and has to be recorded"""
    ds = draw(gen.dates(2, 5, kinds=("bday", "daily")))
    n = len(ds)
    p0 = draw(st.sampled_from([10.0, 16.0, 2.5]))
    nested = draw(st.booleans())
    tree = {"name": "root", "kind": "StrategyBase", "children": ([{"name": "s1", "kind": "StrategyBase", "children": ["a"]}] if nested else []) + ["a", "b"]}
    units = draw(st.sampled_from([1, 2, 4]))
    spec = {"dates": ds, "prices": {"a": [p0] * n, "b": draw(gen.price_path(n))}, "tree": tree, "integer": True, "capital": 1e6, "fee": {"kind": "fixed", "f": p0 * units}}
    path = "root>s1" if nested else "root"
    ops = ([["alloc_child", "root", "s1", 0.2]] if nested else []) + [["alloc_child", path, "a", 0.1]]
    # selling `units` units raises exactly the ticket charge
    sell = ["transact", path, "a", -(p0 * units) / 1e6, None]
    paths = strategy_paths(tree)
    tail = draw(st.lists(op_spec(paths, False), min_size=0, max_size=5))
    k = draw(st.integers(0, len(tail)))
    spec["ops"] = ops + tail[:k] + [sell] + draw(st.sampled_from([[], [["next"]], [sell]])) + tail[k:]
    spec["exact_fee"] = True
    return spec


@st.composite
def history_spec(draw, min_ops=3, max_ops=25, max_dates=8, costs=True, allow_mult=True):
    k_ = draw(st.integers(0, 23))
    if k_ <= 1:
        return draw(wipeout_spec())
    if k_ == 2 and costs:
        return draw(exact_fee_spec())
    if k_ == 3:
        return draw(zero_mark_spec())
    if k_ == 4:
        return draw(pair_flatten_spec())
    ds = draw(gen.dates(2, max_dates, kinds=("bday", "daily", "mixed", "intraday")))
    n = len(ds)
    nt = draw(st.integers(1, 4))
    tickers = gen.TICKERS[:nt]
    pr = draw(gen.prices(n, tickers, n_clean=draw(st.integers(1, nt))))
    # a held position may be marked at exactly zero for a while (bt keeps such a position, with weight 0); trading at a zero price is refused, so
    # the interpreter skips trade ops on those dates
    if n >= 3 and draw(st.integers(0, 2)) == 0:
        t0_ = draw(st.sampled_from(tickers))
        k0 = draw(st.integers(1, n - 1))
        for i in range(k0, min(n, k0 + draw(st.integers(1, 3)))):
            if pr[t0_][i] is not None:
                pr[t0_][i] = 0.0
    tree = draw(tree_spec(tickers, allow_mult=allow_mult))
    spec = {"dates": ds, "prices": pr, "tree": tree, "integer": draw(st.booleans()), "capital": draw(st.sampled_from([1e6, 1e6, 1e5, 54321.0, 1e8]))}
    if costs:
        spec["fee"] = draw(gen.fee_spec(gen.min_price(pr)))
        bo = draw(gen.bidoffer(n, tickers, pr))
        if bo is not None:
            spec["bidoffer"] = bo
    else:
        spec["fee"] = {"kind": "none"}
    if spec["fee"]["kind"] != "none" and len(strategy_paths(tree)) > 1 and draw(st.integers(0, 3)) == 0:
        # the commission function is installed on each sub-strategy while it is still stand-alone; the assembled tree never gets one
        spec["fee_scope"] = "children"
        for path_, nd_ in gen.walk_nodes(tree):
            if len(path_) > 1:
                nd_["own_fee"] = True
    spawn = None
    if draw(st.integers(0, 3)) == 0:
        # a sub-strategy that does not exist at first and is created mid-history under one of the strategies
        holders = [nd for _, nd in gen.walk_nodes(tree)]
        par = holders[draw(st.integers(0, len(holders) - 1))]
        kids_t = draw(st.lists(st.sampled_from(tickers), min_size=1, max_size=len(tickers), unique=True))
        par.setdefault("children", []).append({"name": "dyn1", "kind": "StrategyBase", "children": list(kids_t), "spawn": True})
        spawn = par
    paths = strategy_paths(tree)
    ops = []
    # usually fund every sub-strategy first (an unfunded strategy that trades has a return on a zero base, which bt refuses by design)
    if draw(st.integers(0, 7)) != 0:
        for path, kids in paths:
            for k, isst in kids.items():
                if isst:
                    ops.append(["alloc_child", path, k, draw(st.sampled_from([0.1, 0.2, 0.3]))])
    body = draw(st.lists(op_spec(paths, spec.get("bidoffer") is not None), min_size=min_ops, max_size=max_ops))
    if spawn is not None:
        ppath = [p_ for p_, kids_ in paths if "dyn1" in kids_][0]
        k_ = draw(st.integers(0, len(body)))
        body = body[:k_] + [["spawn", ppath, "dyn1"], ["alloc_child", ppath, "dyn1", draw(st.sampled_from([0.05, 0.1, 0.2]))]] + body[k_:]
    # unfunded prefunding of the not-yet-existing strategy is skipped by the interpreter
    spec["ops"] = ops + body
    return spec


def history_labels(spec, run):
    labs = []
    if len(strategy_paths(spec["tree"])) > 1:
        labs.append("nested")
    tick = []
    for _, kids in strategy_paths(spec["tree"]):
        tick += [k for k, isst in kids.items() if not isst]
    if len(tick) != len(set(tick)):
        labs.append("shared_ticker")
    if spec.get("fee", {}).get("kind", "none") != "none":
        labs.append("fee")
    if spec.get("fee_scope") == "children":
        labs.append("fee_installed_before_composition")
    if spec.get("wipeout"):
        labs.append("substrategy_value_exactly_zero")
    if spec.get("exact_fee"):
        labs.append("proceeds_equal_commission")
    if spec.get("zero_marks"):
        labs.append("held_through_zero_marks_and_recovery")
    if spec.get("pair_flatten"):
        labs.append("offsetting_legs_flattened_at_parity")
    if spec.get("bidoffer"):
        labs.append("spread")
    if spec["integer"]:
        labs.append("integer")
    return labs
