"""Run one backtest spec (JSON on stdin) in this fresh process and print its full node history as JSON.
Used by C11 to compare results across interpreter hash seeds / processes."""
import contextlib
import io
import json
import sys


def main():
    kind = sys.argv[1] if len(sys.argv) > 1 else "py"
    spec = json.load(sys.stdin)
    from . import build, interp

    bt = build.load_bt(kind)
    interp.seed_rngs(spec)
    b = interp.mk_backtest(bt, spec)
    out = {}
    with contextlib.redirect_stdout(io.StringIO()):
        try:
            b.run()
        except Exception as e:
            out["error"] = "%s: %s" % (type(e).__name__, str(e)[:200])
    if "error" not in out:
        out["history"] = interp.tree_history(b.strategy, bt)
        out["universe_columns"] = {m.full_name: [str(c) for c in m.universe.columns] for m in b.strategy.members if isinstance(m, bt.core.StrategyBase)}
    sys.stdout.write(json.dumps(out, sort_keys=True))


if __name__ == "__main__":
    main()
