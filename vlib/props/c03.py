"""C03 Price index is a flow-neutral return index starting at 100."""
import copy

import numpy as np
from hypothesis import strategies as st

from .. import gen, interp, machine
from ..harness import Discard, Violation, bt_frame_signature, run_sub
from . import c10

RULE = (
    "recurrence: on every date of grammar-generated market-value backtests the recorded root index starts at 100 and equals price[t-1]*value[t]/(value[t-1]+flows[t]) "
    "(flows = initial capital on the synthetic row + CapitalFlow). history: after every operation of generated histories (several flows / fees / non-flow adjustments per date) the "
    "index read equals last_price*value/(last_value+net flows so far) with the reference model's accumulators, and a flow on a date without P&L leaves it bit-unchanged. "
    "schedule: a known schedule of flows (CapitalFlow, or a user algo adjusting with update=False and relying on the backtest's closing update) is recorded date for date "
    "in the flows series and the recurrence holds. scale: the same scale-free spec (fractional positions, proportional or no commission, any spread) run at capital C and lambda*C gives the same index (1e-9). "
    "flows: zero-cost fractional daily-rebalanced strategies with CapitalFlow placed on dates whose prices equal the previous date's give the same index as without the flows. "
    "non-trivial = at least one non-zero flow after the first date and one date with non-zero return. distinct = distinct spec hashes."
)
ASSUMPTIONS = [
    "a flow dated t enters numerator and denominator of date t's return (the stated recurrence), so 'never moves the index' is checked where the recurrence implies it: a flow by itself produces no return",
    "scale/flow metamorphic relations only for stacks that do not read absolute money amounts and for runs that stay solvent",
]
BUILDS = {"quick": ["py"], "thorough": ["py", "cy"]}


def check_recurrence(bt, s, tag="", tol=1e-9):
    p = np.asarray(s.prices, dtype=float)
    v = np.asarray(s.values, dtype=float)
    f = np.asarray(s.flows, dtype=float)
    if not (abs(p[0] - 100.0) < 1e-12):
        raise Violation("%s: index starts at %r, not 100" % (tag, p[0]), signature="start!=100")
    for t in range(1, len(p)):
        bottom = v[t - 1] + f[t]
        if abs(bottom) < 1e-16:
            exp = p[t - 1]
        else:
            exp = p[t - 1] * (v[t] / bottom)
        if not abs(p[t] - exp) <= tol * max(abs(exp), 1.0):
            raise Violation("%s: price[%d]=%r != price[%d]*value/(prev value+flows)=%r (value %r prev %r flows %r)" % (tag, t, p[t], t - 1, exp, v[t], v[t - 1], f[t]), signature="recurrence")


def case_recurrence(ctx, spec):
    bt = ctx.bt
    try:
        b = c10.run_backtest(bt, spec)
    except Exception as e:
        raise Discard("run raised (C10's business): %s" % type(e).__name__)
    s = b.strategy
    check_recurrence(bt, s, "backtest")
    f = np.asarray(s.flows, dtype=float)
    cap = spec.get("initial_capital", 1e6)
    if not abs(f[0] - cap) <= 1e-9 * abs(cap):
        raise Violation("initial capital %r is not recorded as a flow on the pre-start row (flows[0]=%r)" % (cap, f[0]), signature="initial-flow")
    p = np.asarray(s.prices, dtype=float)
    labs = gen.spec_labels(spec)
    has_flow = bool((f[1:] != 0).any())
    if has_flow:
        labs.append("flow_after_start")
    moved = bool((np.abs(np.diff(p)) > 1e-12).any())
    return {"nontrivial": has_flow and moved, "labels": labs}


def case_history(ctx, spec):
    bt = ctx.bt
    try:
        run = machine.TreeRun(bt, spec)
    except ZeroDivisionError:
        raise Discard("zero base")
    labs = set(machine.history_labels(spec, None))
    n_flow = 0
    moved = False
    M = run.model
    try:
        machine.check_price(run, "start")
        if run.root.price != 100.0:
            raise Violation("index starts at %r" % run.root.price, signature="start!=100")
        for k, op in enumerate(spec["ops"]):
            tag = "op#%d %s" % (k, op)
            p0 = run.root.price
            quiet_before = M.value(M.root) == M.root.last_value + M.root.flows
            ok = run.step(op)
            if not ok:
                continue
            run.apply_trades_to_model()
            p1 = run.root.price
            if run.root.bankrupt:
                raise Discard("bankrupt")
            machine.check_price(run, tag)
            # the index series is read after every operation (several times per date): its last entry is the current index, also when a
            # cost was booked since the previous read of the same date
            ser = run.root.prices
            if len(ser) and not (float(ser.iloc[-1]) == float(p1)):
                raise Violation("%s: the index series ends with %r but the index is %r (series read before on the same date: %s)" % (tag, float(ser.iloc[-1]), float(p1), k > 0), signature="prices-series-stale")
            if op[0] == "adjust" and op[1] == M.root.path and op[3]:
                if run.i > 0:
                    n_flow += 1
                quiet_after = M.value(M.root) == M.root.last_value + M.root.flows
                if quiet_before and quiet_after and abs(p1 - p0) > 1e-13 * abs(p0):
                    raise Violation("%s: a pure flow on a date without P&L moved the index from %r to %r" % (tag, p0, p1), signature="flow-moves-index")
            if abs(p1 - 100.0) > 1e-9:
                moved = True
    except ZeroDivisionError:
        raise Discard("zero base")
    except (Violation, Discard):
        raise
    except Exception as e:
        raise Violation("history raised %s: %s" % (type(e).__name__, str(e)[:200]), signature="raises:" + bt_frame_signature(e))
    return {"nontrivial": n_flow >= 1 and moved, "labels": sorted(labs)}


# ---- metamorphic: scale ------------------------------------------------------------------
def scale_spec(spec, lam):
    s2 = copy.deepcopy(spec)
    s2["initial_capital"] = spec["initial_capital"] * lam

    def rec(a):
        if a[0] == "CapitalFlow":
            a[1]["amount"] = a[1]["amount"] * lam
        p = a[1] if len(a) > 1 else {}
        for x in p.get("algos", []) or []:
            rec(x)
        if "algo" in p:
            rec(p["algo"])

    for _, nd in gen.walk_nodes(s2["tree"]):
        for a in nd.get("algos", []):
            rec(a)
    return s2


def _run_prices(bt, spec):
    b = c10.run_backtest(bt, spec)
    if b.strategy.bankrupt:
        raise Discard("bankrupt")
    return b, np.asarray(b.strategy.prices, dtype=float)


def case_scale(ctx, spec):
    bt = ctx.bt
    lam = spec["lambda"]
    base = {k: v for k, v in spec.items() if k != "lambda"}
    try:
        b1, p1 = _run_prices(bt, base)
        b2, p2 = _run_prices(bt, scale_spec(base, lam))
    except Discard:
        raise
    except Exception as e:
        raise Discard("run raised (C10's business): %s" % type(e).__name__)
    if len(p1) != len(p2) or not np.allclose(p1, p2, rtol=1e-9, atol=1e-9):
        i = int(np.argmax(np.abs(p1 - p2) > 1e-9 * np.maximum(np.abs(p1), 1)))
        raise Violation("index depends on the amount of capital: capital x%r changes price[%d] from %r to %r" % (lam, i, p1[i], p2[i]), signature="scale")
    moved = bool((np.abs(np.diff(p1)) > 1e-12).any())
    return {"nontrivial": moved and c10.n_trades(bt, b1) > 0, "labels": gen.spec_labels(base)}


@st.composite
def scale_case(draw):
    spec = draw(gen.backtest_spec(integer=False, scale_free=True, allow_risk=False))
    spec["lambda"] = draw(st.sampled_from([1e-3, 0.01, 0.5, 3.0, 7.77, 100.0, 1e3]))
    return spec


# ---- metamorphic: flows on zero-P&L dates -----------------------------------------------
@st.composite
def flows_case(draw):
    ds = draw(gen.dates(4, 14, kinds=("bday", "daily", "mixed")))
    n = len(ds)
    nt = draw(st.integers(2, 4))
    tickers = gen.TICKERS[:nt]
    pr = draw(gen.prices(n, tickers, n_clean=nt))
    fidx = sorted(draw(st.lists(st.integers(1, n - 1), min_size=1, max_size=3, unique=True)))
    for t in tickers:
        for i in fidx:
            pr[t][i] = pr[t][i - 1]
    # keep the equality through chains of flow dates
    for t in tickers:
        for i in range(1, n):
            if i in fidx:
                pr[t][i] = pr[t][i - 1]
    frames = {}
    sw, info = draw(gen.select_weigh(ds, tickers, tickers, frames, allow_short=True, allow_risk=False, scale_free=True, pr=pr))
    if any(a[0] in ("WeighTarget", "LimitDeltas", "SetStat") for a in sw):  # dated targets / path-dependent limits are not capital-independent; a sparse statistic skips rebalances
        sw = [["SelectAll", {}], ["WeighEqually", {}]]
        frames = {}
    amounts = [draw(st.sampled_from([250000.0, -300000.0, 1e6, 12345.67, -50000.0])) for _ in fidx]
    flows = [["Or", {"algos": [["Stack", {"algos": [["RunOnDate", {"dates": [ds[i]]}], ["CapitalFlow", {"amount": a}]]}], ["Const", {"v": True}]]}] for i, a in zip(fidx, amounts)]
    spec = {
        "dates": ds,
        "prices": pr,
        "rng_seed": 0,
        "frames": frames,
        "additional": sorted(frames),
        "integer_positions": False,
        "initial_capital": 1e6,
        "fee": {"kind": "none"},
        "tree": {"name": "root", "kind": "Strategy", "algos": sw + [["Rebalance", {}]]},
        "flow_algos": flows,
    }
    return spec


def case_flows(ctx, spec):
    bt = ctx.bt
    base = {k: v for k, v in spec.items() if k != "flow_algos"}
    withf = copy.deepcopy(base)
    withf["tree"]["algos"] = copy.deepcopy(spec["flow_algos"]) + withf["tree"]["algos"]
    try:
        b1, p1 = _run_prices(bt, base)
        b2, p2 = _run_prices(bt, withf)
    except Discard:
        raise
    except Exception as e:
        raise Discard("run raised (C10's business): %s" % type(e).__name__)
    f2 = np.asarray(b2.strategy.flows, dtype=float)
    if not (f2[1:] != 0).any():
        raise Violation("CapitalFlow did not register as a flow", signature="flow-missing")
    if (np.asarray(b2.strategy.values, dtype=float)[1:] <= 0).any():
        raise Discard("insolvent")
    if not np.allclose(p1, p2, rtol=1e-9, atol=1e-9):
        i = int(np.argmax(np.abs(p1 - p2) > 1e-9 * np.maximum(np.abs(p1), 1)))
        raise Violation("capital flows on zero-P&L dates moved the index: price[%d] %r (no flows) vs %r (flows %r)" % (i, p1[i], p2[i], f2.tolist()), signature="flows-move-index")
    moved = bool((np.abs(np.diff(p1)) > 1e-12).any())
    return {"nontrivial": moved, "labels": ["flows=%d" % int((f2[1:] != 0).sum())]}


# ---- explicit flow schedules --------------------------------------------------------------------------
@st.composite
def schedule_case(draw):
    """a known schedule of flows (several per date possible; booked by CapitalFlow or by a user algo that adjusts with update=False and
    relies on the backtest's closing update) on top of any gated trading stack"""
    spec = draw(gen.backtest_spec(max_dates=12, nested=False, allow_flow=False, allow_risk=False))
    ds = spec["dates"]
    n = len(ds)
    k = draw(st.integers(1, 4))
    sched = []
    flow_algos = []
    for _ in range(k):
        i = draw(st.integers(0, n - 1))
        amt = draw(st.sampled_from([7500.0, -5000.0, 123456.78, -20000.0, 0.5]))
        how = draw(st.sampled_from(["CapitalFlow", "FlowNoUpdate"]))
        sched.append([i, amt, how])
        flow_algos.append(["Or", {"algos": [["Stack", {"algos": [["RunOnDate", {"dates": [ds[i]]}], [how, {"amount": amt}]]}], ["Const", {"v": True}]]}])
    spec["tree"]["algos"] = flow_algos + spec["tree"]["algos"]
    if draw(st.integers(0, 2)) == 0:
        # an account charge (or rebate) booked on every run of the stack, not gated by any scheduler: performance, not capital
        spec["tree"]["algos"].insert(0, ["FeeNoFlow", {"amount": draw(st.sampled_from([50.0, 500.0, -25.0]))}])
        spec["fee_algo"] = True
    spec["progress_bar"] = draw(st.booleans())
    spec["schedule"] = sched
    return spec


# ---- side-dependent cost models ------------------------------------------------------------------
@st.composite
def side_fee_spec(draw):
    """stamp duty on purchases only / a levy on sales only (the commission function is handed the signed quantity): the fees that move the
    index are the ones the user's function gives for the trades executed, sales and purchases told apart"""
    spec = draw(gen.backtest_spec(nested=False, max_dates=12, allow_risk=False))
    spec["fee"] = {"kind": draw(st.sampled_from(["buy_duty", "sell_levy"])), "r": draw(st.sampled_from([0.002, 0.01, 0.0005]))}
    spec.pop("bidoffer", None)
    return spec


def case_side_fee(ctx, spec):
    bt = ctx.bt
    try:
        b = c10.run_backtest(bt, spec)
    except Exception as e:
        raise Discard("run raised (C10's business): %s" % type(e).__name__)
    s = b.strategy
    if s.bankrupt:
        raise Discard("bankrupt")
    if not s.securities:
        raise Discard("never traded")
    fee = interp.Fee(spec["fee"])
    tx = s.get_transactions()
    idx = list(s.values.index)
    exp = np.zeros(len(idx))
    mult = {m.name: m.multiplier for m in s.securities}
    both = {"buy": 0, "sell": 0}
    for (d_, nm), r in tx.iterrows():
        q, px = float(r["quantity"]), float(r["price"])
        exp[idx.index(d_)] += fee.value(q, px * mult[nm])
        both["buy" if q > 0 else "sell"] += 1
    got = np.asarray(s.fees, dtype=float)
    if not np.allclose(got, exp, rtol=1e-9, atol=1e-6):
        i = int(np.argmax(~np.isclose(got, exp, rtol=1e-9, atol=1e-6)))
        raise Violation("fees recorded on %s are %r; the commission model (%s) gives %r for that date's trades %s" % (idx[i], got[i], spec["fee"], exp[i], [(nm, float(r["quantity"])) for (d_, nm), r in tx.iterrows() if d_ == idx[i]]), signature="side-fee")
    check_recurrence(bt, s, "side_fee")
    return {"nontrivial": both["buy"] > 0 and both["sell"] > 0, "labels": [spec["fee"]["kind"]]}


def case_schedule(ctx, spec):
    bt = ctx.bt
    base = {k: v for k, v in spec.items() if k not in ("schedule", "fee_algo")}
    try:
        b = c10.run_backtest(bt, base)
    except Exception as e:
        raise Discard("run raised (C10's business): %s" % type(e).__name__)
    s = b.strategy
    if s.bankrupt:
        raise Discard("bankrupt")
    f = np.asarray(s.flows, dtype=float)
    exp = np.zeros(len(f))
    exp[0] = spec.get("initial_capital", 1e6)
    for i, amt, how in spec["schedule"]:
        exp[i + 1] += amt
    if not np.allclose(f, exp, rtol=1e-12, atol=1e-9):
        i = int(np.argmax(~np.isclose(f, exp, rtol=1e-12, atol=1e-9)))
        raise Violation("recorded flows on row %d are %r but the schedule booked %r (schedule %s)" % (i, f[i], exp[i], spec["schedule"]), signature="flows-not-recorded")
    check_recurrence(bt, s, "schedule")
    v0 = float(np.asarray(s.values, dtype=float)[0])
    if abs(v0 - exp[0]) > 1e-9 * max(1.0, abs(exp[0])):
        raise Violation("the value on the pre-start row is %r, not the initial capital %r: something ran before the first date of the data" % (v0, exp[0]), signature="pre-start-row")
    # a flow is capital, not performance: on a date without trading costs and without price moves the index does not move
    p = np.asarray(s.prices, dtype=float)
    moved = bool((np.abs(np.diff(p)) > 1e-12).any())
    return {"nontrivial": moved and any(i > 0 for i, _, _ in spec["schedule"]), "labels": sorted({how for _, _, how in spec["schedule"]}) + (["progress_bar"] if spec.get("progress_bar") else []) + (["ungated_fee_algo"] if spec.get("fee_algo") else [])}


SUBS = {"schedule": case_schedule, "recurrence": case_recurrence, "history": case_history, "scale": case_scale, "flows": case_flows, "side_fee": case_side_fee}
STRATS = {"schedule": schedule_case, "recurrence": lambda: st.one_of(gen.backtest_spec(), gen.backtest_spec(allow_flow="force")), "history": machine.history_spec, "scale": scale_case, "flows": flows_case, "side_fee": side_fee_spec}


def shard(ctx):
    run_sub(ctx, "recurrence", st.one_of(gen.backtest_spec(), gen.backtest_spec(allow_flow="force")), lambda s: case_recurrence(ctx, s), ctx.n(800, 16000))
    run_sub(ctx, "schedule", schedule_case(), lambda s: case_schedule(ctx, s), ctx.n(800, 12000))
    run_sub(ctx, "history", machine.history_spec(min_ops=8, max_ops=36), lambda s: case_history(ctx, s), ctx.n(1000, 20000))
    run_sub(ctx, "scale", scale_case(), lambda s: case_scale(ctx, s), ctx.n(320, 6000))
    run_sub(ctx, "flows", flows_case(), lambda s: case_flows(ctx, s), ctx.n(320, 6000))
    run_sub(ctx, "side_fee", side_fee_spec(), lambda s: case_side_fee(ctx, s), ctx.n(480, 8000))
