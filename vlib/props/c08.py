"""C08 Updates are idempotent, reads are fresh, and history is append-only."""
import copy
import math

import numpy as np
from hypothesis import strategies as st

from .. import gen, interp, machine
from ..harness import Discard, Violation, bt_frame_signature, run_sub
from . import c10

RULE = (
    "twin: one generated operation history (see C01) is executed on two identical trees; tree B additionally receives generated redundant root.update(now) calls (1-3x) and "
    "property reads between operations. After every operation the full observable snapshots (scalars and every history series of every node) must be bit-identical, a property read on "
    "the stale tree A must equal the same read on B after an explicit update, all rows of earlier dates must never change once the clock has moved, and no series accessor may extend "
    "beyond the current date. noisy_backtest: a grammar backtest run twice, once with a noise algo (redundant updates + reads) inserted at generated stack positions: histories bit-identical. "
    "fi_twin: two fixed-income trees (all security kinds, coupons, spreads, commissions, optionally nested) execute the same notional transactions / closes / adjustments / date changes, one of "
    "them with redundant updates and reads at generated places, the other refreshed only when the clock moves; the observable state must agree at every date boundary (1e-12 relative). "
    "frozen: histories whose operations are issued in deferred form (update=False, update_self=False) with generated placements of the closing update, including none before the clock "
    "moves (outside the lazy-update protocol; only the append-only clause is judged there): the rows of earlier dates, read from the arrays behind the series so that looking refreshes nothing, "
    "must still be what they were when the clock moved past them. "
    "non-trivial = at least one redundant update/read placed between a mutation and the next date change (twin) / noise executed on a date with trades (backtest) / the clock moved at least once while a change was pending (frozen). distinct = distinct spec hashes."
)
ASSUMPTIONS = ["noise is placed between operations issued with default update flags (never inside an update=False batch)"]
BUILDS = {"quick": ["py"], "thorough": ["py", "cy"]}

STRAT_SERIES = ["prices", "values", "notional_values", "cash", "fees", "flows"]
SEC_SERIES = ["prices", "values", "notional_values", "positions", "outlays"]
READS = ["value", "weight", "price", "notional_value", "prices", "values", "cash", "fees", "flows", "positions", "outlays", "capital", "universe"]


def _lst(s):
    return [None if (isinstance(x, float) and math.isnan(x)) else x for x in np.asarray(s, dtype=float).tolist()]


def snapshot(bt, root, now, check_index=True):
    snap = {}
    for m in root.members:
        d = {"value": float(m.value), "weight": float(m.weight), "price": float(m.price) if not (isinstance(m.price, float) and math.isnan(m.price)) else None, "notional_value": float(m.notional_value)}
        isstrat = isinstance(m, bt.core.StrategyBase)
        names = list(STRAT_SERIES if isstrat else SEC_SERIES)
        if m._bidoffer_set:
            names.append("bidoffers_paid")
            if not isstrat:
                names.append("bidoffers")
        if isstrat:
            d["capital"] = float(m.capital)
        else:
            d["position"] = float(m.position)
        for nm in names:
            ser = getattr(m, nm)
            if check_index and len(ser.index) and ser.index.max() > now:
                raise Violation("%s.%s extends beyond the current date %s (last index %s)" % (m.full_name, nm, now, ser.index.max()), signature="beyond-now:" + nm)
            d[nm] = _lst(ser.loc[:now])
        if isstrat:
            for nm in ("positions", "outlays"):
                df = getattr(m, nm)
                if check_index and len(df.index) and df.index.max() > now:
                    raise Violation("%s.%s extends beyond the current date" % (m.full_name, nm), signature="beyond-now:" + nm)
                d["df_" + nm] = {c: _lst(df[c]) for c in df.columns}
            u = m.universe
            if check_index and len(u.index) and u.index.max() > now:
                raise Violation("%s.universe extends beyond the current date" % m.full_name, signature="beyond-now:universe")
        snap[m.full_name] = d
    return snap


def diff_snap(a, b):
    for k in a:
        if k not in b:
            return "node %s missing" % k
        for f in a[k]:
            if a[k][f] != b[k].get(f):
                return "%s.%s: %r vs %r" % (k, f, _short(a[k][f]), _short(b[k].get(f)))
    for k in b:
        if k not in a:
            return "node %s extra" % k
    return None


def _short(x):
    s = repr(x)
    return s if len(s) < 200 else s[:200] + "..."


def past_rows(snap, n_past):
    """rows strictly before the current date"""
    out = {}
    for k, d in snap.items():
        out[k] = {f: (v[:n_past] if isinstance(v, list) else {c: w[:n_past] for c, w in v.items()}) for f, v in d.items() if isinstance(v, (list, dict))}
    return out


def do_read(bt, run, what, path):
    try:
        n = run.node(path)
    except KeyError:
        return None
    if not hasattr(n, what):
        what = "value"
    v = getattr(n, what)
    if hasattr(v, "columns"):
        v = v.loc[: run.now()]
        return {str(c): [None if (isinstance(x, float) and math.isnan(x)) else x for x in v[c].tolist()] for c in v.columns}
    if hasattr(v, "index") and hasattr(v, "loc"):
        return _lst(v.loc[: run.now()])
    if isinstance(v, (int, float, np.floating)):
        v = float(v)
        return None if math.isnan(v) else v
    return repr(v)


def case_twin(ctx, spec):
    bt = ctx.bt
    ops = spec["ops"]
    noise = {}
    for pos, kind, arg, path in spec.get("noise", []):
        noise.setdefault(pos, []).append((kind, arg, path))
    try:
        A = machine.TreeRun(bt, spec)
        B = machine.TreeRun(bt, spec)
    except ZeroDivisionError:
        raise Discard("zero base")
    frozen_rows = {}
    n_noise_effective = 0
    mutated_since_next = False
    labs = set(machine.history_labels(spec, None))
    try:
        for k, op in enumerate(ops):
            tag = "op#%d %s" % (k, op)
            okA = A.step(op)
            okB = B.step(op)
            if okA != okB:
                raise Violation("%s: skipped on one twin only" % tag, signature="twin-skip")
            if not okA:
                continue
            A.apply_trades_to_model()
            B.apply_trades_to_model()
            if op[0] == "next":
                mutated_since_next = False
            elif op[0] != "update":
                mutated_since_next = True
            # a sub-strategy may be created (parent=) while the tree still has the pending change of the previous operation: the
            # refresh is left to the first read after the creation
            if k + 1 < len(ops) and ops[k + 1][0] == "spawn" and op[0] not in ("next", "update"):
                labs.add("spawn_on_stale_tree")
                continue
            # the very first read after the operation: a generated property of a generated node on the stale tree A must equal
            # the same read on B after an explicit update (whichever node is asked first has to refresh the whole tree correctly)
            fr = spec.get("first_reads")
            if fr:
                fpath, fwhat = fr[k % len(fr)]
                ra = do_read(bt, A, fwhat, fpath)
                B.root.update(B.now())
                rb = do_read(bt, B, fwhat, fpath)
                if ra != rb:
                    raise Violation("%s: first read %s.%s on the stale tree gives %s but after an explicit update %s" % (tag, fpath, fwhat, _short(ra), _short(rb)), signature="stale-first-read:" + fwhat)
                if A.now() != B.now() or A.root.now != B.root.now:
                    raise Violation("%s: reading %s.%s moved the tree's clock to %s" % (tag, fpath, fwhat, A.root.now), signature="stale-read-clock")
            # both trees are refreshed after every operation (A through reads, B through explicit updates): operations such as
            # allocate push capital down by the weights of the last refresh, so leaving one twin stale across operations would
            # compare two different histories rather than one history with and without redundant calls
            A.root.value
            B.root.update(B.now())
            for kind, arg, path in noise.get(k, []):
                if kind == "update":
                    for _ in range(arg):
                        B.root.update(B.now())
                else:
                    # stale read on A == read after explicit update on B
                    ra = do_read(bt, A, arg, path)
                    B.root.update(B.now())
                    rb = do_read(bt, B, arg, path)
                    if ra != rb:
                        raise Violation("%s: reading %s.%s while stale gives %s but after an explicit update %s" % (tag, path, arg, _short(ra), _short(rb)), signature="stale-read:" + arg)
                if mutated_since_next:
                    n_noise_effective += 1
                labs.add("noise=" + kind)
            # Full snapshots read every property of every node, which itself brings dormant (flat, skipped) securities up to date.
            # They are therefore taken only at generated steps (and at the end), so that stale clocks can build up in between.
            snaps = spec.get("snapshots")
            if snaps is not None and k not in snaps and k != len(ops) - 1:
                continue
            sa = snapshot(bt, A.root, A.now())
            sb = snapshot(bt, B.root, B.now(), check_index=False)
            if A.root.bankrupt or B.root.bankrupt:
                raise Discard("bankrupt")
            d = diff_snap(sa, sb)
            if d:
                raise Violation("%s: redundant updates/reads changed the observable state: %s" % (tag, d), signature="not-idempotent:" + d.split(":")[0].split(".")[-1])
            # append-only: once the clock has moved past a date, the rows recorded for it never change
            for jdx in range(0, B.i):
                rows = {}
                for node, d in sb.items():
                    for f, v in d.items():
                        if isinstance(v, list) and len(v) > jdx:
                            rows[(node, f)] = v[jdx]
                        elif isinstance(v, dict):
                            for c, w in v.items():
                                if len(w) > jdx:
                                    rows[(node, f, c)] = w[jdx]
                if jdx not in frozen_rows:
                    frozen_rows[jdx] = rows
                else:
                    old = frozen_rows[jdx]
                    for key, val in old.items():
                        if rows.get(key, val) != val:
                            raise Violation("%s: the row of date #%d of %s changed after the clock had moved on: %r -> %r" % (tag, jdx, ".".join(key), val, rows.get(key)), signature="past-changed:" + key[1])
                    for key, val in rows.items():
                        if key not in old:
                            old[key] = val
    except ZeroDivisionError:
        raise Discard("zero base")
    except (Violation, Discard):
        raise
    except Exception as e:
        raise Violation("history raised %s: %s" % (type(e).__name__, str(e)[:200]), signature="raises:" + bt_frame_signature(e))
    return {"nontrivial": n_noise_effective > 0, "labels": sorted(labs)}


@st.composite
def twin_spec(draw):
    spec = draw(machine.history_spec(min_ops=5, max_ops=28))
    n = len(spec["ops"])
    paths = []
    for p, kids in machine.strategy_paths(spec["tree"]):
        paths.append(p)
        for c, isst in kids.items():
            if not isst:
                paths.append(p + ">" + c)
    noise = draw(
        st.lists(
            st.tuples(st.integers(0, n - 1), st.sampled_from(["update", "read", "read"]), st.integers(1, 3), st.sampled_from(paths)),
            min_size=1,
            max_size=10,
        )
    )
    out = []
    for pos, kind, cnt, path in noise:
        out.append([pos, kind, cnt if kind == "update" else draw(st.sampled_from(READS)), path])
    spec["noise"] = out
    spec["snapshots"] = sorted(draw(st.lists(st.integers(0, n - 1), max_size=n, unique=True))) if draw(st.booleans()) else list(range(n))
    sec_paths = [p_ for p_ in paths if p_.split(">")[-1] in spec["prices"]] or paths
    any_read = st.tuples(st.sampled_from(paths), st.sampled_from(["value", "weight", "notional_value", "price", "prices", "values", "positions", "cash", "fees", "flows", "universe", "universe"]))
    sec_read = st.tuples(st.sampled_from(sec_paths), st.sampled_from(["value", "weight", "notional_value", "price", "values", "positions"]))  # incl. dormant (flat, skipped) securities
    spec["first_reads"] = [list(x) for x in draw(st.lists(st.one_of(any_read, sec_read, sec_read), min_size=1, max_size=8))]
    return spec


# ---- noisy backtests ---------------------------------------------------------------------
def _noise_cb(bt, counter):
    def cb(algo, target):
        root = target.root
        mode = algo.key.split(":")[-1]
        counter["n"] += 1
        if mode in ("update", "both"):
            root.update(root.now)
            root.update(root.now)
        if mode in ("read", "both"):
            for m in root.members:
                m.value, m.weight, m.price
                if isinstance(m, bt.core.StrategyBase):
                    m.prices, m.values, m.fees, m.flows, m.capital
                    m.positions
                else:
                    m.positions, m.outlays
        return True

    return cb


def case_noisy_backtest(ctx, spec):
    bt = ctx.bt
    plain = copy.deepcopy(spec)
    ins = plain.pop("noise_at")
    noisy = copy.deepcopy(plain)
    nodes = list(gen.walk_nodes(noisy["tree"]))
    for ni, pos, mode in ins:
        _, nd = nodes[ni % len(nodes)]
        nd["algos"].insert(pos % (len(nd["algos"]) + 1), ["Probe", {"key": "c08noise:" + mode, "run_always": True}])
    counter = {"n": 0}
    for mode in ("update", "read", "both"):
        interp.Probe.registry["c08noise:" + mode] = _noise_cb(bt, counter)
    try:
        try:
            b1 = c10.run_backtest(bt, plain)
        except Exception as e:
            raise Discard("run raised (C10's business): %s" % type(e).__name__)
        try:
            b2 = c10.run_backtest(bt, noisy)
        except Exception as e:
            raise Violation("redundant updates/reads made the run raise %s: %s" % (type(e).__name__, str(e)[:200]), signature="noise-raises")
    finally:
        for mode in ("update", "read", "both"):
            interp.Probe.registry.pop("c08noise:" + mode, None)
    h1 = interp.tree_history(b1.strategy, bt)
    h2 = interp.tree_history(b2.strategy, bt)
    d = diff_snap(h1, h2)
    if d:
        raise Violation("noise algo (redundant updates + reads) changed the recorded history: %s" % d, signature="noisy-backtest:" + d.split(":")[0].split(".")[-1])
    return {"nontrivial": counter["n"] > 0 and c10.n_trades(bt, b1) > 0, "labels": gen.spec_labels(plain)}


@st.composite
def noisy_spec(draw):
    spec = draw(gen.backtest_spec())
    spec["noise_at"] = draw(st.lists(st.tuples(st.integers(0, 5), st.integers(0, 12), st.sampled_from(["update", "read", "both"])), min_size=1, max_size=4))
    spec["noise_at"] = [list(x) for x in spec["noise_at"]]
    return spec


# ---- append-only rows under deferred operations -----------------------------------------
RAW_STRAT = ["_prices", "_values", "_notl_values", "_cash", "_fees", "_all_flows", "_bidoffers_paid"]
RAW_SEC = ["_prices", "_values", "_notl_values", "_positions", "_outlays", "_bidoffers_paid", "_coupon_income", "_holding_costs"]


def raw_rows(bt, root, n_rows):
    """the first n_rows rows of every recorded series of every node, read from the arrays behind the series (no property is touched,
    so nothing is refreshed by looking)"""
    out = {}
    for m in root.members:
        for nm in RAW_STRAT if isinstance(m, bt.core.StrategyBase) else RAW_SEC:
            ser = getattr(m, nm, None)
            if ser is None or not hasattr(ser, "array"):
                continue
            arr = np.asarray(ser.array, dtype=float)[:n_rows]
            out[(m.full_name, nm[1:])] = [None if math.isnan(x) else float(x) for x in arr]
    return out


def case_frozen(ctx, spec):
    """History with operations issued in deferred form (update=False / update_self=False) and generated placements of the closing
    update - including none at all before the clock moves. Only the append-only clause is judged: what the rows of dates before the
    current one contained when the clock moved is what they contain for ever."""
    bt = ctx.bt
    try:
        run = machine.TreeRun(bt, spec)
    except ZeroDivisionError:
        raise Discard("zero base")
    defer = spec["defer"]
    settle = spec["settle"]
    reads = spec.get("reads") or [None]
    frozen = {}
    n_pending_moves = 0
    labs = set(machine.history_labels(spec, None))
    pending = False
    try:
        for k, op in enumerate(spec["ops"]):
            tag = "op#%d %s" % (k, op)
            run.defer = bool(defer[k % len(defer)]) and op[0] not in ("next", "update", "spawn")
            before = None
            if op[0] == "next":
                before = raw_rows(bt, run.root, run.i + 1)  # rows up to and including the current date (hand-driven trees have no synthetic row)
            ok = run.step(op)
            if not ok:
                continue
            run.expect = None  # sizes computed from a deliberately stale tree are not the model's business here
            run.apply_trades_to_model()
            if run.root.bankrupt:
                raise Discard("bankrupt")
            if op[0] == "next":
                if pending:
                    n_pending_moves += 1
                    labs.add("clock_moved_with_pending_change")
                pending = False
                for key, col in before.items():
                    for j, v in enumerate(col):
                        frozen.setdefault((key, j), v)
            elif op[0] != "update":
                if run.defer:
                    labs.add("deferred_op")
                if settle[k % len(settle)]:
                    run.root.update(run.now())
                else:
                    pending = True
            else:
                pending = False
            rd = reads[k % len(reads)]
            if rd is not None:
                do_read(bt, run, rd[1], rd[0])
                labs.add("read")
            cur = raw_rows(bt, run.root, run.i)  # rows of dates strictly before the current one
            for key, col in cur.items():
                for j, v in enumerate(col):
                    old = frozen.get((key, j), v)
                    if old != v and not (old is None and v is None):
                        raise Violation("%s: row #%d of %s.%s was %r when the clock moved past it and is %r now (current date is row #%d)" % (tag, j, key[0], key[1], old, v, run.i), signature="past-changed-deferred:" + key[1])
    except ZeroDivisionError:
        raise Discard("zero base")
    except (Violation, Discard):
        raise
    except Exception as e:
        # protocol misuse may legitimately end in an error (e.g. a position left without a price); only silent rewriting is judged here
        raise Discard("history raised %s" % type(e).__name__)
    return {"nontrivial": n_pending_moves > 0, "labels": sorted(labs)}


@st.composite
def frozen_spec(draw):
    spec = draw(machine.history_spec(min_ops=6, max_ops=28))
    n = len(spec["ops"])
    spec["defer"] = draw(st.lists(st.booleans(), min_size=1, max_size=n))
    spec["settle"] = draw(st.lists(st.sampled_from([True, False, False]), min_size=1, max_size=n))
    paths = []
    for p_, kids in machine.strategy_paths(spec["tree"]):
        paths.append(p_)
        for c, isst in kids.items():
            if not isst:
                paths.append(p_ + ">" + c)
    rd = st.one_of(st.none(), st.none(), st.tuples(st.sampled_from(paths), st.sampled_from(["value", "weight", "price", "positions", "values", "outlays", "cash", "fees"])))
    spec["reads"] = [None if x is None else list(x) for x in draw(st.lists(rd, min_size=1, max_size=8))]
    return spec


# ---- fixed-income twins ---------------------------------------------------------------------------
FI_KINDS = ["FixedIncomeSecurity", "CouponPayingSecurity", "CouponPayingSecurity", "HedgeSecurity", "Security"]


@st.composite
def fi_twin_spec(draw):
    ds = draw(gen.dates(2, 6, kinds=("bday", "daily")))
    n = len(ds)
    nt = draw(st.integers(1, 3))
    tickers = gen.TICKERS[:nt]
    pr = {t: draw(gen.price_path(n, vol=0.01, p0=draw(st.sampled_from([100.0, 99.5, 101.25])), decimals=4)) for t in tickers}
    kinds = {t: draw(st.sampled_from(FI_KINDS)) for t in tickers}
    coup = {t: [draw(st.sampled_from([0.0, 0.01, 0.025])) for _ in range(n)] for t in tickers}
    ops = []
    for _ in range(draw(st.integers(3, 14))):
        k = draw(st.sampled_from(["transact", "transact", "transact", "close", "next", "adjust"]))
        if k == "transact":
            ops.append([k, draw(st.sampled_from(tickers)), draw(st.sampled_from([1000.0, -1000.0, 500.0, -250.0, 2000.0, -2000.0]))])
        elif k == "close":
            ops.append([k, draw(st.sampled_from(tickers))])
        elif k == "adjust":
            ops.append([k, draw(st.sampled_from([500.0, -200.0])), draw(st.integers(0, 4)) != 0])
        else:
            ops.append([k])
    noise = [[draw(st.integers(0, len(ops) - 1)), draw(st.sampled_from(["update", "update2", "value", "price", "notional_value", "prices"]))] for _ in range(draw(st.integers(1, 6)))]
    return {
        "dates": ds,
        "prices": pr,
        "kinds": kinds,
        "coupons": coup,
        "ops": ops,
        "noise": noise,
        "spread": draw(st.sampled_from([None, 0.02, 0.1])),
        "fee": draw(gen.fee_spec(0.5, kinds=("none", "fixed", "prop"))),
        "integer": draw(st.booleans()),
        "nested": draw(st.integers(0, 3)) == 0,
    }


def _fi_tree(bt, spec):
    import pandas as pd

    data = interp.mk_frame(spec["dates"], spec["prices"])
    kids = [getattr(bt.core, spec["kinds"][t])(t) for t in sorted(spec["prices"])]
    if spec["nested"]:
        root = bt.core.FixedIncomeStrategy("root", children=[bt.core.FixedIncomeStrategy("sub", children=kids)])
    else:
        root = bt.core.FixedIncomeStrategy("root", children=kids)
    kw = {"coupons": interp.mk_frame(spec["dates"], spec["coupons"])}
    if spec["spread"] is not None:
        kw["bidoffer"] = data * 0.0 + spec["spread"]
    root.setup(data, **kw)
    root.use_integer_positions(bool(spec["integer"]))
    if spec["fee"]["kind"] != "none":
        root.set_commissions(interp.Fee(spec["fee"]))
    root.update(data.index[0])
    return root, data.index


def _fi_snapshot(bt, root, now):
    out = {}
    for m in root.members:
        d = {"value": float(m.value), "price": float(m.price), "notional_value": float(m.notional_value), "weight": float(m.weight)}
        names = ["prices", "values", "notional_values"] + (["cash", "fees", "flows"] if isinstance(m, bt.core.StrategyBase) else ["positions", "outlays"])
        if isinstance(m, bt.core.CouponPayingSecurity):
            names += ["coupons", "holding_costs"]
        if m._bidoffer_set:
            names.append("bidoffers_paid")
        for nm in names:
            ser = getattr(m, nm)
            if len(ser.index) and ser.index.max() > now:
                raise Violation("%s.%s extends beyond the current date %s" % (m.full_name, nm, now), signature="fi-beyond-now:" + nm)
            d[nm] = [float(x) for x in np.asarray(ser.loc[:now], dtype=float)]
        out[m.full_name] = d
    return out


def _fi_diff(a, b, tol=1e-12):
    for k in a:
        for f in a[k]:
            x, y = a[k][f], b[k][f]
            xs, ys = (x, y) if isinstance(x, list) else ([x], [y])
            if len(xs) != len(ys):
                return "%s.%s: %d rows vs %d" % (k, f, len(xs), len(ys))
            for i, (p_, q_) in enumerate(zip(xs, ys)):
                if (p_ != p_) != (q_ != q_) or (p_ == p_ and abs(p_ - q_) > tol * max(1.0, abs(p_), abs(q_))):
                    return "%s.%s row %d: %r vs %r" % (k, f, i, p_, q_)
    return None


def case_fi_twin(ctx, spec):
    """Two identical fixed-income trees execute the same operations (notional transactions, closes, adjustments, date changes); tree B
    additionally receives redundant updates and property reads at generated places, tree A is refreshed only when the clock is about
    to move.  At every date boundary and at the end the observable state must agree (1e-12 relative: re-summing the carry may move
    the last bit)."""
    bt = ctx.bt
    try:
        A, idx = _fi_tree(bt, spec)
        B, _ = _fi_tree(bt, spec)
    except Exception as e:
        raise Discard("setup raised %s" % type(e).__name__)
    noise = {}
    for pos, what in spec["noise"]:
        noise.setdefault(pos, []).append(what)
    i = 0
    effective = 0
    mutated = False
    labs = set(spec["kinds"].values())

    def compare(tag):
        A.update(idx[i])
        B.update(idx[i])
        d = _fi_diff(_fi_snapshot(bt, A, idx[i]), _fi_snapshot(bt, B, idx[i]))
        if d:
            raise Violation("%s: redundant updates / reads changed the observable state of a fixed-income tree: %s" % (tag, d), signature="fi-not-idempotent:" + d.split(":")[0].split(".")[-1].split(" ")[0])

    try:
        for k, op in enumerate(spec["ops"]):
            tag = "op#%d %s" % (k, op)
            if op[0] == "next":
                if i + 1 >= len(idx):
                    continue
                compare(tag)
                i += 1
                A.update(idx[i])
                B.update(idx[i])
                mutated = False
            else:
                for T in (A, B):
                    holder = T["sub"] if spec["nested"] else T
                    if op[0] == "transact":
                        holder.transact(op[2], child=op[1])
                    elif op[0] == "close":
                        holder.close(op[1])
                    else:
                        T.adjust(op[1], flow=op[2])
                mutated = True
            for what in noise.get(k, []):
                if what == "update":
                    B.update(idx[i])
                elif what == "update2":
                    B.update(idx[i])
                    B.update(idx[i])
                else:
                    getattr(B, what)
                if mutated:
                    effective += 1
        compare("end")
    except ZeroDivisionError:
        raise Discard("pnl on zero notional (ill-formed, C10)")
    except (Violation, Discard):
        raise
    except Exception as e:
        raise Discard("history raised %s (C10's business)" % type(e).__name__)
    return {"nontrivial": effective > 0, "labels": sorted(labs) + (["nested"] if spec["nested"] else [])}


# ---- a decision taken while a change is pending --------------------------------------------------------------
@st.composite
def pending_rebalance_spec(draw):
    """an announced change is pending (default flags: the tree is only marked stale) when rebalance(w, child, base=...) is called: what it
    trades is what it would trade had the tree been refreshed (by an update, or by any read) in between"""
    pa, pb = draw(st.sampled_from([10.0, 17.25, 101.3])), draw(st.sampled_from([20.0, 9.99, 50.0]))
    first = draw(st.sampled_from([["adjust", draw(st.sampled_from([1.0, 0.5, -0.3]))], ["rebalance", "a", draw(st.sampled_from([0.1, 0.5, 0.0]))], ["transact", "b", draw(st.sampled_from([5.0, -3.0]))], ["close", "b"], ["allocate", "a", draw(st.sampled_from([0.2, -0.1]))]]))
    return {
        "pa": pa,
        "pb": pb,
        "kind": draw(st.sampled_from(["Strategy", "Strategy", "FixedIncomeStrategy"])),
        "integer": draw(st.booleans()),
        "w0": [draw(st.sampled_from([0.25, 0.5, 0.0])), draw(st.sampled_from([0.25, 0.4, 0.0]))],
        "first": first,
        "w": draw(st.sampled_from([0.5, 0.3, 0.7, -0.2])),
        "child": draw(st.sampled_from(["a", "b"])),
        "base_x": draw(st.sampled_from([1.0, 2.0, 0.5])),
        "refresh": draw(st.sampled_from(["update", "read_value", "read_child_weight"])),
    }


def case_pending_rebalance(ctx, spec):
    import pandas as pd

    bt = ctx.bt
    d0, d1 = pd.Timestamp("2021-06-01"), pd.Timestamp("2021-06-02")
    data = pd.DataFrame({"a": [spec["pa"], spec["pa"] * 1.02], "b": [spec["pb"], spec["pb"] * 0.97]}, index=[d0, d1])
    cap = 1000.0

    def run(refresh):
        cls = bt.core.FixedIncomeStrategy if spec["kind"] == "FixedIncomeStrategy" else bt.core.Strategy
        kids = [bt.core.FixedIncomeSecurity("a"), bt.core.FixedIncomeSecurity("b")] if spec["kind"] == "FixedIncomeStrategy" else ["a", "b"]
        s = cls("s", [], children=kids)
        s.setup(data)
        s.use_integer_positions(spec["integer"])
        s.adjust(cap)
        s.update(d0)
        s.rebalance(spec["w0"][0], "a", base=cap)
        s.rebalance(spec["w0"][1], "b", base=cap)
        s.update(d0)
        s.update(d1)
        base = cap * spec["base_x"]
        f = spec["first"]
        if f[0] == "adjust":
            s.adjust(f[1] * cap)
        elif f[0] == "rebalance":
            s.rebalance(f[2], f[1], base=cap)
        elif f[0] == "transact":
            s.transact(f[2], f[1])
        elif f[0] == "close":
            s.close(f[1])
        else:
            s.allocate(f[2] * cap, f[1])
        if refresh == "update":
            s.update(s.now)
        elif refresh == "read_value":
            s.value
        elif refresh == "read_child_weight":
            s.children[spec["child"]].weight if spec["child"] in s.children else s.value
        s.rebalance(spec["w"], spec["child"], base=base)
        s.update(s.now)
        return {c: float(ch.position) for c, ch in s.children.items()}, float(s.capital), float(s.value)

    try:
        a = run(None)
        b = run(spec["refresh"])
    except ZeroDivisionError:
        raise Discard("zero base")
    except Exception as e:
        raise Discard("the sequence raises (C10's business): %s" % type(e).__name__)
    pa_, ca, va = a
    pb_, cb_, vb = b
    tol = 1e-9 * cap
    if any(abs(pa_.get(k, 0.0) - pb_.get(k, 0.0)) > 1e-9 * max(1.0, abs(pb_.get(k, 0.0))) for k in set(pa_) | set(pb_)) or abs(ca - cb_) > tol:
        raise Violation(
            "%s pending, then rebalance(%r, %r, base=%r): positions %s cash %r; with %s in between: positions %s cash %r" % (spec["first"], spec["w"], spec["child"], cap * spec["base_x"], pa_, ca, spec["refresh"], pb_, cb_),
            signature="pending-rebalance",
        )
    return {"nontrivial": any(abs(v) > 0 for v in pb_.values()), "labels": [spec["kind"], "first=" + spec["first"][0], "refresh=" + spec["refresh"]]}


SUBS = {"twin": case_twin, "noisy_backtest": case_noisy_backtest, "frozen": case_frozen, "fi_twin": case_fi_twin, "pending_rebalance": case_pending_rebalance}
STRATS = {"twin": twin_spec, "noisy_backtest": noisy_spec, "frozen": frozen_spec, "fi_twin": fi_twin_spec, "pending_rebalance": pending_rebalance_spec}


def shard(ctx):
    run_sub(ctx, "twin", twin_spec(), lambda s: case_twin(ctx, s), ctx.n(1200, 25000))
    run_sub(ctx, "noisy_backtest", noisy_spec(), lambda s: case_noisy_backtest(ctx, s), ctx.n(320, 6000))
    run_sub(ctx, "frozen", frozen_spec(), lambda s: case_frozen(ctx, s), ctx.n(1200, 25000))
    run_sub(ctx, "fi_twin", fi_twin_spec(), lambda s: case_fi_twin(ctx, s), ctx.n(1600, 30000))
    run_sub(ctx, "pending_rebalance", pending_rebalance_spec(), lambda s: case_pending_rebalance(ctx, s), ctx.n(1600, 30000))
