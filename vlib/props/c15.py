"""C15 Weighting algos produce the documented weights."""
import datetime as dt
import math

import numpy as np
import pandas as pd
from hypothesis import strategies as st

from .. import gen, interp
from ..harness import Discard, Violation, run_sub

RULE = (
    "Per weighting algo (WeighEqually, WeighSpecified, WeighTarget, ScaleWeights, WeighInvVol, WeighERC, WeighMeanVar, WeighRandomly, LimitWeights, LimitDeltas, TargetVol, "
    "PTE_Rebalance): generated selections (empty, single, many), clean price histories with distinct volatilities, windows and lags, limits/bounds/targets and live portfolios; "
    "temp['weights'] right after the call is checked against the documented relation recomputed independently with numpy on the independently cut window "
    "(inv-vol: w_i*sigma_i constant; ERC: risk contributions within 2% of the equal share; TargetVol: ex-ante volatility == target on every date of a multi-date sequence with a changing "
    "selection; LimitWeights: cap respected, total preserved, uncapped proportions kept; LimitDeltas: |new - live| <= limit; PTE: boolean == recomputed tracking-error vol > cap). "
    "non-trivial = >=2 assets with distinct volatilities / a weight actually capped / a delta actually limited / >=2 selected. distinct = distinct spec hashes."
)
ASSUMPTIONS = [
    "optimality of WeighMeanVar is not checked (bounds and sum only); ERC within 2% of the equal share",
    "LimitWeights inputs are non-negative weights summing to one (what ffn.limit_weights accepts)",
    "third-party solver non-convergence is discarded and counted",
]

ALGOS = ["WeighEqually", "WeighSpecified", "WeighTarget", "ScaleWeights", "WeighInvVol", "WeighERC", "WeighMeanVar", "WeighRandomly", "LimitWeights", "LimitDeltas", "TargetVol", "PTE_Rebalance"]
DEP = ("No solution found", "Inequality constraints incompatible", "Positive directional derivative", "Singular matrix", "Iteration limit", "0 sample", "More equality constraints")


@st.composite
def clean_universe(draw, min_n=8, max_n=24, nt=None):
    ds = draw(gen.dates(min_n, max_n, kinds=("bday", "daily", "mixed")))
    n = len(ds)
    nt = nt or draw(st.integers(2, 5))
    tickers = gen.TICKERS[:nt]
    pr = {}
    for t in tickers:
        pr[t] = draw(gen.price_path(n, vol=draw(st.sampled_from([0.005, 0.02, 0.06, 0.15])), decimals=6))
    return ds, pr, tickers


def _ts(d):
    return dt.datetime.fromisoformat(d)


# numbers of names n for which the float 1/n is judged differently by the three obvious ways of writing "n weights of at most limit cannot
# add up to one" (limit < 1/n, 1/limit > n, limit x n < 1): where a caller and a callee may disagree about the same cap
FEASIBILITY_TESTS_DISAGREE = [n for n in range(2, 200) if len({(1.0 / n) < 1.0 / n, 1.0 / (1.0 / n) > n, (1.0 / n) * n < 1.0}) > 1]


def weights_via_weigh_target(bt, strat, w0, ds):
    """temp['weights'] as WeighTarget leaves it when the user's target frame holds whole numbers (an int64 frame)"""
    import pandas as pd

    df = pd.DataFrame({k: [int(v)] * len(ds) for k, v in w0.items()}, index=interp.mk_dates(ds))
    if len(w0):
        assert all(str(t) == "int64" for t in df.dtypes)
    strat.temp = {"selected": list(w0)}
    if not bt.algos.WeighTarget(df)(strat):
        raise Discard("WeighTarget found no row")


def _minus(t, off):
    """t - DateOffset(**off) with calendar arithmetic (months clip to the month end), as pandas does"""
    from dateutil.relativedelta import relativedelta

    return t - relativedelta(**off)


def window(ds, i, lookback, lag):
    """rows of the documented window [now - lag - lookback, now - lag]; the lag is applied first"""
    if not isinstance(lookback, dict):
        lookback = {"days": lookback}
    if not isinstance(lag, dict):
        lag = {"days": lag}
    now = _ts(ds[i])
    t0 = _minus(now, lag)
    lo = _minus(t0, lookback)
    return [k for k in range(0, i + 1) if lo <= _ts(ds[k]) <= t0]


def returns_matrix(pr, cols, rows, synthetic_first=False):
    """simple returns between consecutive window rows (first row has no return)"""
    P = np.array([[pr[c][k] for c in cols] for k in rows], dtype=float)
    if len(rows) < 2:
        return np.zeros((0, len(cols)))
    return P[1:] / P[:-1] - 1.0


@st.composite
def case_spec(draw, algo=None):
    algo = algo or draw(st.sampled_from(ALGOS))
    month_cal = algo in ("WeighInvVol", "WeighERC", "WeighMeanVar", "TargetVol", "PTE_Rebalance") and draw(st.integers(0, 2)) == 0
    if month_cal:
        # ~4 months of (business-)daily data around month ends
        ds = draw(gen.dates(70, 100, kinds=("bday", "daily"), start=draw(st.sampled_from(["2020-01-02", "2019-11-15", "2021-03-10", "2023-12-01"]))))
        tickers = gen.TICKERS[: draw(st.integers(2, 3))]
        pr = {t: draw(gen.price_path(len(ds), vol=draw(st.sampled_from([0.005, 0.02, 0.06])), decimals=6)) for t in tickers}
    else:
        ds, pr, tickers = draw(clean_universe())
    n = len(ds)
    g = gen.max_gap_days(ds)
    if algo in ("WeighInvVol", "WeighERC", "WeighMeanVar", "TargetVol", "PTE_Rebalance") and draw(st.booleans()):
        # a ticker of the universe that is never selected and has holes in its history (late listing, halts): the estimation sample
        # of the selected names is theirs alone
        zcol = draw(gen.price_path(n, vol=0.05, decimals=4))
        holes = draw(st.lists(st.integers(0, n - 1), min_size=1, max_size=max(1, n // 3), unique=True))
        for h_ in holes:
            zcol[h_] = None
        pr = dict(pr)
        pr["z"] = zcol
    spec = {"dates": ds, "prices": pr, "algo": algo, "params": {}, "rng_seed": draw(st.integers(0, 10**6)), "frames": {}, "month_calendar": month_cal}
    p = spec["params"]
    sel_kind = draw(st.sampled_from(["many", "many", "many", "single", "empty"]))
    if sel_kind == "many":
        sel = draw(st.lists(st.sampled_from(tickers), min_size=2, max_size=len(tickers), unique=True))
    elif sel_kind == "single":
        sel = [draw(st.sampled_from(tickers))]
    else:
        sel = []
    spec["selected"] = sel
    spec["at"] = draw(st.integers(min(6, n - 1), n - 1)) if not month_cal else draw(st.integers(n - 45, n - 4))
    lb = {"days": draw(st.integers(5 * g, 5 * g + 60))}
    lag = {"days": draw(st.sampled_from([0, 0, 1, 2]))}
    if spec["month_calendar"]:
        # calendar look-backs (the default is 3 months) with day lags: month arithmetic does not commute with day arithmetic
        lb = {"months": draw(st.integers(1, 3))}
        lag = {"days": draw(st.sampled_from([0, 1, 2, 3, 5]))}

    def rand_weights(keys, short=False, total=None):
        if not keys:
            return {}
        raw = [draw(st.integers(0 if len(keys) > 1 else 1, 10)) for _ in keys]
        if sum(raw) == 0:
            raw[0] = 1
        tot = float(sum(raw))
        w = {k: r / tot for k, r in zip(keys, raw)}
        if short:
            w = {k: (v if draw(st.integers(0, 3)) else -v) for k, v in w.items()}
        if total is not None:
            w = {k: v * total for k, v in w.items()}
        return w

    if algo == "WeighSpecified":
        p["weights"] = rand_weights(draw(st.lists(st.sampled_from(tickers), min_size=0, max_size=len(tickers), unique=True)), short=True)
    elif algo == "WeighTarget":
        idx = sorted(draw(st.lists(st.integers(0, n - 1), min_size=1, max_size=n, unique=True)))
        cols = {t: [] for t in tickers}
        for _ in idx:
            w = rand_weights(tickers, short=True)
            for t in tickers:
                cols[t].append(None if draw(st.integers(0, 5)) == 0 else round(w[t], 6))
        spec["frames"]["tw"] = {"kind": "frame", "dates": [ds[k] for k in idx], "cols": cols}
        p["frame"] = "tw"
        p["by_name"] = draw(st.booleans())
    elif algo == "ScaleWeights":
        p["scale"] = draw(st.sampled_from([0.0, 0.5, 1.0, -1.0, 2.5, 0.333]))
        spec["weights"] = rand_weights(sel, short=True)
    elif algo in ("WeighInvVol", "WeighERC", "WeighMeanVar"):
        p["lookback"] = lb
        p["lag"] = lag
        if algo == "WeighERC":
            p["covar_method"] = draw(st.sampled_from(["standard", "ledoit-wolf"]))
            p["risk_parity_method"] = "ccd"  # ffn's slsqp variant returns unconverged weights without raising; a dependency matter, not judged
        if algo == "WeighMeanVar":
            p["covar_method"] = draw(st.sampled_from(["standard", "ledoit-wolf"]))
            p["bounds"] = draw(st.sampled_from([[0.0, 1.0], [0.0, 0.6], [0.1, 0.8], [0.0, 0.5]]))
    elif algo == "WeighRandomly":
        lo = draw(st.sampled_from([0.0, 0.0, 0.1, -0.2]))
        hi = draw(st.sampled_from([1.0, 0.5, 0.3, 0.6]))
        p["bounds"] = [lo, hi]
        p["weight_sum"] = draw(st.sampled_from([1, 1, 0.8, 0.5, 1.5]))
    elif algo == "LimitWeights":
        spec["weights"] = rand_weights(sel)
        p["limit"] = draw(st.sampled_from([0.1, 0.2, 0.25, 0.34, 0.5, 0.6, 0.75, 1.0]))
        boundary = bool(sel) and draw(st.integers(0, 2)) == 0
        if boundary:
            # the boundary of feasibility: a cap equal to the equal weight (every weight ends on the cap)
            p["limit"] = 1.0 / len(sel)
        if sel and (boundary or draw(st.booleans())):
            # weights as a volatility-type weigher computes them: arbitrary positive numbers divided by their sum (the float total is then
            # 1 - ulp, 1 or 1 + ulp rather than the exact ratios of small integers above)
            arr = np.array([draw(st.floats(0.05, 20.0, allow_nan=False, allow_infinity=False)) for _ in sel], dtype=float)
            spec["weights"] = {k: float(x) for k, x in zip(sel, arr / arr.sum())}
        if boundary and draw(st.integers(0, 2)) == 0:
            # many names: 1/n is rarely a float whose n-fold is exactly one (n = 49, 98, 103, ...), so "equal to the equal weight" sits
            # on either side of feasibility by an ulp - capped at the limit or nothing, never an error
            big = draw(st.one_of(st.integers(6, 120), st.sampled_from(FEASIBILITY_TESTS_DISAGREE)))
            arr = np.array([draw(st.floats(0.05, 20.0, allow_nan=False, allow_infinity=False)) for _ in range(min(big, 6))] + [1.0 + 0.01 * i for i in range(max(0, big - 6))], dtype=float)
            spec["weights"] = {"x%03d" % i: float(x) for i, x in enumerate(arr / arr.sum())}
            p["limit"] = 1.0 / big
        # weights arrive as a plain dict (WeighEqually, WeighSpecified) or as a pandas Series of numpy floats (WeighInvVol, WeighERC, WeighMeanVar)
        spec["weights_as"] = draw(st.sampled_from(["dict", "series", "series"] if boundary else ["dict", "series"]))
    elif algo == "LimitDeltas":
        held = draw(st.lists(st.sampled_from(tickers), min_size=0, max_size=len(tickers), unique=True))
        spec["live"] = rand_weights(held, short=draw(st.booleans()), total=draw(st.sampled_from([1.0, 0.9, 0.5])))
        spec["weights"] = rand_weights(sel, short=draw(st.booleans()), total=draw(st.sampled_from([1.0, 0.7])))
        # a capital flow booked earlier in the same stack (CapitalFlow before LimitDeltas) leaves the tree with a pending change when the algo runs
        spec["pending_flow"] = draw(st.sampled_from([None, None, 0.5, 1.0, -0.3]))
        if draw(st.booleans()):
            p["limit"] = draw(st.sampled_from([0.0, 0.01, 0.05, 0.1, 0.3, 1.0]))
        else:
            p["limit"] = {t: draw(st.sampled_from([0.01, 0.05, 0.2])) for t in draw(st.lists(st.sampled_from(tickers), min_size=0, max_size=len(tickers), unique=True))}
        if sel and draw(st.integers(0, 4)) == 0:
            # the weights come from WeighTarget reading a frame of whole numbers (all-in / all-out / long-short signals typed as integers)
            spec["weights"] = {k: draw(st.sampled_from([1, 0, -1, 1])) for k in sel}
            spec["weights_via"] = "weigh_target_int"
    elif algo == "TargetVol":
        p["target"] = draw(st.sampled_from([0.05, 0.1, 0.2, 0.35]))
        p["lookback"] = lb
        p["lag"] = lag
        p["af"] = draw(st.sampled_from([252, 12, 52]))
        p["covar_method"] = draw(st.sampled_from(["standard", "standard", "ledoit-wolf"]))
        # a sequence of calls on successive dates with changing weight keys
        k0 = spec["at"]
        seq = []
        for j in range(k0, min(n, k0 + 3)):
            keys = draw(st.lists(st.sampled_from(tickers), min_size=0, max_size=len(tickers), unique=True))
            seq.append([j, rand_weights(keys, short=draw(st.booleans()))])
        if draw(st.integers(0, 3)) == 0:
            # the weights come from WeighTarget reading a frame of whole numbers (all-in / long-short signals typed as integers)
            seq = [[j, {k: draw(st.sampled_from([1, 1, 0, -1])) for k in w_}] for j, w_ in seq]
            spec["weights_via"] = "weigh_target_int"
        spec["sequence"] = seq
        # the target as the caller happens to hold it: a Python float, or a numpy scalar out of some array
        p["target_as"] = draw(st.sampled_from(["float", "float", "float64", "float32"]))
    elif algo == "PTE_Rebalance":
        p["cap"] = draw(st.sampled_from([0.0, 0.001, 0.01, 0.05, 0.2, 10.0]))
        p["lookback"] = lb
        p["lag"] = lag
        p["af"] = draw(st.sampled_from([252, 12]))
        p["covar_method"] = draw(st.sampled_from(["standard", "standard", "ledoit-wolf"]))
        held = draw(st.lists(st.sampled_from(tickers), min_size=0, max_size=len(tickers), unique=True))
        spec["live"] = rand_weights(held, total=draw(st.sampled_from([1.0, 0.9, 0.5])))
        tk = draw(st.lists(st.sampled_from(tickers), min_size=1, max_size=len(tickers), unique=True))
        cols = {t: [] for t in tk}
        for _ in range(n):
            w = rand_weights(tk)
            for t in tk:
                cols[t].append(round(w[t], 6))
        spec["frames"]["ptw"] = {"kind": "frame", "cols": cols}
    return spec


def build(bt, spec, children=None):
    ds, pr = spec["dates"], spec["prices"]
    data = interp.mk_frame(ds, pr)
    frames = {nm: interp.mk_frame(f.get("dates", ds), f["cols"]) for nm, f in spec["frames"].items()}
    s = bt.Strategy("s", [], children=children)
    b = bt.Backtest(s, data, additional_data={k: v for k, v in frames.items()} or None, integer_positions=False, progress_bar=False)
    strat = b.strategy
    strat.setup(b.data, **b.additional_data)
    strat.adjust(1e6)
    return b, strat, frames


def step_to(b, strat, i, live=None):
    """advance to data index i; establish live weights at that date if requested"""
    for d in b.dates[: i + 2]:
        strat.update(d)
    if live:
        for t, w in live.items():
            strat.rebalance(w, t, base=1e6)
        strat.update(b.dates[i + 1])


def wdict(w):
    if w is None:
        return None
    if isinstance(w, dict):
        return {k: float(v) for k, v in w.items()}
    return {k: float(v) for k, v in w.items()}


def case_weigh(ctx, spec):
    bt = ctx.bt
    A = bt.algos
    name = spec["algo"]
    p = spec["params"]
    ds, pr = spec["dates"], spec["prices"]
    i = spec["at"]
    sel = spec["selected"]
    sig = "c15:" + name
    interp.seed_rngs(spec)
    try:
        b, strat, frames = build(bt, spec)
        step_to(b, strat, i, spec.get("live"))
    except Exception as e:
        raise Discard("setup raised %s" % type(e).__name__)
    strat.temp = {"selected": list(sel)}
    if "weights" in spec:
        strat.temp["weights"] = dict(spec["weights"])
        if spec.get("weights_via") == "weigh_target_int" and spec["weights"]:
            weights_via_weigh_target(bt, strat, spec["weights"], ds)
            strat.temp["selected"] = list(sel)
        if spec.get("weights_as") == "series":
            import pandas as pd

            strat.temp["weights"] = pd.Series(spec["weights"], dtype=float)
    labs = [name, "n=%d" % min(len(sel), 3)] + (["weights_as_series"] if spec.get("weights_as") == "series" else []) + (["weights_from_integer_target_frame"] if spec.get("weights_via") else [])

    def call(algo):
        try:
            r = algo(strat)
            if name in ("WeighEqually", "WeighSpecified", "WeighInvVol", "WeighERC", "WeighMeanVar") and isinstance(strat.temp.get("weights"), dict):
                # what a call leaves in temp belongs to the strategy: later algos edit it in place (LimitDeltas does). The same instance
                # asked again for the same selection on the same date must answer the same, whatever happened to its previous answer
                first = dict(strat.temp["weights"])
                strat.temp["weights"]["__edited_by_a_later_algo__"] = 9.9
                strat.temp["weights"].update({k: 0.123 for k in first})
                strat.temp = {"selected": list(sel)}
                algo(strat)
                again = dict(strat.temp.get("weights") or {})
                if set(again) != set(first) or any(abs(again[k] - first[k]) > 1e-12 for k in first):
                    raise Violation("%s(%s) asked twice for the selection %s on one date answered %s, then %s (the first answer had been edited in place in between)" % (name, p, sel, first, again), signature=sig + ":repeat")
                strat.temp["weights"] = dict(first)
            return r
        except (Violation, Discard):
            raise
        except Exception as e:
            if any(k in str(e) for k in DEP):
                raise Discard("dependency did not converge")
            raise Violation("%s(%s) raised %s: %s" % (name, p, type(e).__name__, str(e)[:160]), signature=sig + ":raises")

    if name == "WeighEqually":
        call(A.WeighEqually())
        w = wdict(strat.temp["weights"])
        exp = {t: 1.0 / len(sel) for t in sel} if sel else {}
        if w != exp:
            raise Violation("WeighEqually(%s) gave %s" % (sel, w), signature=sig)
        return {"nontrivial": len(sel) >= 2, "labels": labs}
    if name == "WeighSpecified":
        algo = A.WeighSpecified(**p["weights"])
        call(algo)
        w = strat.temp["weights"]
        if wdict(w) != p["weights"]:
            raise Violation("WeighSpecified gave %s, expected %s" % (w, p["weights"]), signature=sig)
        for k in list(w):
            w[k] = 99.0
        w["zz"] = 1.0
        strat.temp = {}
        call(algo)
        if wdict(strat.temp["weights"]) != p["weights"]:
            raise Violation("WeighSpecified hands out its own dict: a caller's edit changed the next call's weights to %s" % strat.temp["weights"], signature=sig + ":alias")
        return {"nontrivial": len(p["weights"]) >= 2, "labels": labs}
    if name == "WeighTarget":
        algo = A.WeighTarget(interp._frame_arg(bt, p, spec, frames))
        ret = call(algo)
        f = spec["frames"]["tw"]
        if ds[i] in f["dates"]:
            k = f["dates"].index(ds[i])
            exp = {t: f["cols"][t][k] for t in f["cols"] if f["cols"][t][k] is not None}
            got = wdict(strat.temp.get("weights"))
            if not ret or got != exp:
                raise Violation("WeighTarget at %s gave %s (ret %s), expected %s" % (ds[i], got, ret, exp), signature=sig)
            return {"nontrivial": len(exp) >= 2, "labels": labs + ["dated"]}
        if ret or "weights" in strat.temp:
            raise Violation("WeighTarget on a date without target row returned %s / set weights %s" % (ret, strat.temp.get("weights")), signature=sig + ":nodate")
        return {"nontrivial": False, "labels": labs + ["undated"]}
    if name == "ScaleWeights":
        call(A.ScaleWeights(p["scale"]))
        got = wdict(strat.temp["weights"])
        exp = {k: p["scale"] * v for k, v in spec["weights"].items()}
        if set(got) != set(exp) or any(abs(got[k] - exp[k]) > 1e-15 for k in exp):
            raise Violation("ScaleWeights(%s) of %s gave %s" % (p["scale"], spec["weights"], got), signature=sig)
        return {"nontrivial": len(exp) >= 2, "labels": labs}
    if name in ("WeighInvVol", "WeighERC", "WeighMeanVar"):
        kw = {"lookback": interp.mk_offset(p["lookback"]), "lag": interp.mk_offset(p["lag"])}
        if name == "WeighInvVol":
            algo = A.WeighInvVol(**kw)
        elif name == "WeighERC":
            algo = A.WeighERC(covar_method=p["covar_method"], risk_parity_method=p["risk_parity_method"], maximum_iterations=2000, tolerance=1e-10, **kw)
        else:
            algo = A.WeighMeanVar(bounds=tuple(p["bounds"]), covar_method=p["covar_method"], **kw)
        call(algo)
        w = wdict(strat.temp["weights"])
        if len(sel) == 0:
            if w != {}:
                raise Violation("%s with empty selection gave %s" % (name, w), signature=sig + ":empty")
            return {"nontrivial": False, "labels": labs}
        if len(sel) == 1:
            if w != {sel[0]: 1.0}:
                raise Violation("%s with single selection gave %s" % (name, w), signature=sig + ":single")
            return {"nontrivial": False, "labels": labs}
        rows = window(ds, i, p["lookback"], p["lag"])
        R = returns_matrix(pr, sel, rows)
        if R.shape[0] < 3:
            raise Discard("window too short")
        sd = R.std(axis=0, ddof=1)
        if (sd < 1e-12).any():
            raise Discard("constant price in window")
        if set(w) != set(sel):
            raise Violation("%s weights keys %s != selected %s" % (name, sorted(w), sel), signature=sig + ":keys")
        wv = np.array([w[t] for t in sel])
        if not np.isfinite(wv).all():
            raise Violation("%s produced non-finite weights %s" % (name, w), signature=sig + ":nan")
        if abs(wv.sum() - 1.0) > 1e-6:
            raise Violation("%s weights sum to %r" % (name, wv.sum()), signature=sig + ":sum")
        if name == "WeighInvVol":
            if (wv < 0).any():
                raise Violation("WeighInvVol negative weight %s" % w, signature=sig + ":neg")
            prod = wv * sd
            if (prod.max() - prod.min()) > 1e-9 * prod.max():
                raise Violation("WeighInvVol(%s) at %s: w_i*sigma_i not constant: %s (sigma over rows %s = %s)" % (p, ds[i], prod.tolist(), rows, sd.tolist()), signature=sig + ":relation")
        elif name == "WeighERC":
            if (wv < -1e-9).any():
                raise Violation("WeighERC negative weight %s" % w, signature=sig + ":neg")
            if p["covar_method"] == "standard":
                S = np.cov(R, rowvar=False, ddof=1)
            else:
                import sklearn.covariance

                S = sklearn.covariance.ledoit_wolf(R)[0]
            if not np.isfinite(S).all() or np.linalg.cond(S) > 1e6:
                raise Discard("degenerate covariance")  # collinear return series: equal risk contribution is ill-defined
            rc = wv * (S @ wv)
            tot = rc.sum()
            if tot <= 1e-12 * np.diag(S).max():
                raise Discard("degenerate covariance")
            rc = rc / tot
            if np.abs(rc - 1.0 / len(sel)).max() > 0.02 / len(sel):  # 2% of the equal share: ffn's coordinate descent stops on weight changes, not on the contributions
                raise Violation("WeighERC(%s) at %s: risk contributions %s not equal (weights %s, window rows %s)" % (p, ds[i], rc.tolist(), w, rows), signature=sig + ":relation")
        else:
            lo, hi = p["bounds"]
            if (wv < lo - 1e-6).any() or (wv > hi + 1e-6).any():
                raise Violation("WeighMeanVar weights %s outside bounds %s" % (w, p["bounds"]), signature=sig + ":bounds")
        return {"nontrivial": bool((sd.max() - sd.min()) > 1e-6), "labels": labs}
    if name == "WeighRandomly":
        call(A.WeighRandomly(bounds=tuple(p["bounds"]), weight_sum=p["weight_sum"]))
        w = wdict(strat.temp["weights"])
        lo, hi = p["bounds"]
        nsel = len(sel)
        feasible = nsel * hi >= p["weight_sum"] and nsel * lo <= p["weight_sum"] and hi >= lo
        if not feasible:
            if w != {}:
                raise Violation("WeighRandomly with infeasible bounds %s sum %s n=%d gave %s" % (p["bounds"], p["weight_sum"], nsel, w), signature=sig + ":infeasible")
            return {"nontrivial": False, "labels": labs + ["infeasible"]}
        if set(w) != set(sel):
            raise Violation("WeighRandomly keys %s != selected %s" % (sorted(w), sel), signature=sig + ":keys")
        if sel:
            v = np.array(list(w.values()))
            if (v < lo - 1e-9).any() or (v > hi + 1e-9).any() or abs(v.sum() - p["weight_sum"]) > 1e-9:
                raise Violation("WeighRandomly(%s, sum=%s) gave %s (sum %r)" % (p["bounds"], p["weight_sum"], w, v.sum()), signature=sig + ":range")
        return {"nontrivial": nsel >= 2, "labels": labs}
    if name == "LimitWeights":
        w0 = spec["weights"]
        call(A.LimitWeights(p["limit"]))
        w = wdict(strat.temp["weights"])
        lim = p["limit"]
        if not w0:
            return {"nontrivial": False, "labels": labs}
        from fractions import Fraction

        room = Fraction(lim) * len(w0)  # exact: the most that len(w0) weights of at most lim can add up to
        if room < 1:
            if w == {}:
                return {"nontrivial": False, "labels": labs + ["infeasible"] + (["infeasible_by_an_ulp"] if room > 1 - Fraction(1, 10**12) else [])}
            if room < 1 - Fraction(1, 10**12):
                raise Violation("LimitWeights(%s) on %d weights should give {} but gave %s" % (lim, len(w0), w), signature=sig + ":infeasible")
            # short of one by less than the tolerance of the total: capping everything at the limit is as good an answer
        if set(w) != set(w0):
            raise Violation("LimitWeights keys changed: %s -> %s" % (sorted(w0), sorted(w)), signature=sig + ":keys")
        v = np.array([w[k] for k in w0])
        if not np.isfinite(v).all():
            raise Violation("LimitWeights(%s) of %s gave non-finite weights %s" % (lim, w0, w), signature=sig + ":nan")
        if (v > lim + 1e-9).any():
            raise Violation("LimitWeights(%s) of %s leaves %s above the cap" % (lim, w0, w), signature=sig + ":cap")
        if abs(v.sum() - sum(w0.values())) > 1e-9:
            raise Violation("LimitWeights(%s) of %s changed the total to %r" % (lim, w0, v.sum()), signature=sig + ":total")
        unc = [k for k in w0 if w[k] < lim - 1e-9 and w0[k] > 0]
        if len(unc) >= 2:
            ratios = [w[k] / w0[k] for k in unc]
            if max(ratios) - min(ratios) > 1e-9 * max(ratios):
                raise Violation("LimitWeights(%s) of %s -> %s: uncapped weights lost their proportions" % (lim, w0, w), signature=sig + ":proportions")
        capped = any(w0[k] > lim + 1e-12 for k in w0)
        if not capped and any(abs(w[k] - w0[k]) > 1e-12 for k in w0):
            raise Violation("LimitWeights(%s) changed weights that were all within the cap: %s -> %s" % (lim, w0, w), signature=sig + ":changed")
        return {"nontrivial": capped, "labels": labs + (["capped"] if capped else []) + (["cap_equals_equal_weight"] if lim == 1.0 / len(w0) else [])}
    if name == "LimitDeltas":
        live = {c: strat.children[c].weight for c in strat.children}
        if spec.get("pending_flow"):
            # the live weights the algo must measure against are those after the flow, although nothing has refreshed the tree yet
            v_ = strat.value
            vals_ = {c: strat.children[c].value for c in strat.children}
            amt_ = spec["pending_flow"] * v_
            A.CapitalFlow(amt_)(strat)
            live = {c: vals_[c] / (v_ + amt_) for c in vals_}
            labs.append("pending_flow")
        tw0 = dict(spec["weights"])
        call(A.LimitDeltas(p["limit"]))
        w = wdict(strat.temp["weights"])
        limited = False
        for k in set(list(live) + list(tw0)):
            cur = live.get(k, 0.0)
            tgt = tw0.get(k, 0.0)
            lim = p["limit"] if not isinstance(p["limit"], dict) else p["limit"].get(k)
            new = w.get(k, 0.0 if k not in tw0 else None)
            if lim is None:
                if k in tw0 and abs(w[k] - tw0[k]) > 0:
                    raise Violation("LimitDeltas changed %s which has no limit" % k, signature=sig + ":nolimit")
                continue
            if abs(tgt - cur) > lim + 1e-12:
                limited = True
                exp = cur + lim * (1 if tgt > cur else -1)
                if k not in w or abs(w[k] - exp) > 1e-9:
                    raise Violation("LimitDeltas(%s): %s live %r target %r -> %r, expected %r" % (p["limit"], k, cur, tgt, w.get(k), exp), signature=sig + ":limit")
            else:
                if k in tw0 and (w.get(k) is None or abs(w[k] - tw0[k]) > 1e-12):
                    raise Violation("LimitDeltas(%s) changed %s although its delta %r is within the limit: %r -> %r" % (p["limit"], k, tgt - cur, tw0[k], w.get(k)), signature=sig + ":changed")
        return {"nontrivial": limited, "labels": labs + (["limited"] if limited else [])}
    if name == "TargetVol":
        if p.get("target_as") == "float32":
            p = dict(p, target=float(np.float32(p["target"])))
            tv_arg = np.float32(p["target"])
        elif p.get("target_as") == "float64":
            tv_arg = np.float64(p["target"])
        else:
            tv_arg = p["target"]
        algo = A.TargetVol(tv_arg, lookback=interp.mk_offset(p["lookback"]), lag=interp.mk_offset(p["lag"]), covar_method=p["covar_method"], annualization_factor=p["af"])
        nt_any = False
        for j, w0 in spec["sequence"]:
            for d in b.dates[: j + 2]:
                strat.update(d)
            strat.temp = {"weights": dict(w0)}
            if spec.get("weights_via") == "weigh_target_int" and w0:
                weights_via_weigh_target(bt, strat, w0, ds)
            call(algo)
            w = wdict(strat.temp["weights"])
            if not w0:
                if w != {}:
                    raise Violation("TargetVol with no weights gave %s" % w, signature=sig + ":empty")
                continue
            keys = list(w0)
            rows = window(ds, j, p["lookback"], p["lag"])
            R = returns_matrix(pr, keys, rows)
            if R.shape[0] < 3:
                raise Discard("window too short")
            if p["covar_method"] == "standard":
                S = np.atleast_2d(np.cov(R, rowvar=False, ddof=1))
            else:
                import sklearn.covariance

                S = sklearn.covariance.ledoit_wolf(R)[0]
            wv0 = np.array([w0[k] for k in keys])
            vol0 = math.sqrt(max(wv0 @ S @ wv0, 0.0) * p["af"])
            if vol0 < 1e-10:
                raise Discard("zero ex-ante vol")
            # a long/short pair of almost identical series: w'Sw is a tiny difference of large terms, whichever way it is summed
            if np.abs(np.outer(wv0, wv0) * S).sum() > 1e6 * abs(wv0 @ S @ wv0):
                raise Discard("ill-conditioned quadratic form")
            if set(w) != set(keys):
                raise Violation("TargetVol changed the keys %s -> %s" % (keys, sorted(w)), signature=sig + ":keys")
            wv = np.array([w[k] for k in keys])
            vol = math.sqrt(max(wv @ S @ wv, 0.0) * p["af"])
            if abs(vol - p["target"]) > 1e-6 * p["target"]:
                raise Violation(
                    "TargetVol(%s, %s) call on %s with keys %s: ex-ante volatility of the result is %r (input weights %s -> %s)" % (p["target"], p["covar_method"], ds[j], keys, vol, w0, w),
                    signature=sig + ":vol" + (":first" if j == spec["sequence"][0][0] else ":later"),
                )
            nt_any = nt_any or len(keys) >= 2
        return {"nontrivial": nt_any, "labels": labs + [p["covar_method"]]}
    if name == "PTE_Rebalance":
        tw = frames["ptw"]
        algo = A.PTE_Rebalance(p["cap"], tw, lookback=interp.mk_offset(p["lookback"]), lag=interp.mk_offset(p["lag"]), annualization_factor=p["af"], covar_method=p.get("covar_method", "standard"))
        got = call(algo)
        live = {c: strat.children[c].weight for c in strat.children}
        if not live:
            if got is not True:
                raise Violation("PTE_Rebalance with no positions returned %r, expected True" % got, signature=sig + ":nopos")
            return {"nontrivial": False, "labels": labs + ["nopos"]}
        cols = list(live) + [c for c in spec["frames"]["ptw"]["cols"] if c not in live]
        d = np.array([live.get(c, 0.0) - (spec["frames"]["ptw"]["cols"][c][i] if c in spec["frames"]["ptw"]["cols"] else 0.0) for c in cols])
        rows = window(ds, i, p["lookback"], p["lag"])
        R = returns_matrix(pr, cols, rows)
        if R.shape[0] < 3:
            raise Discard("window too short")
        if p.get("covar_method", "standard") == "standard":
            S = np.atleast_2d(np.cov(R, rowvar=False, ddof=1))
        else:
            import sklearn.covariance

            S = sklearn.covariance.ledoit_wolf(R)[0]
        vol = math.sqrt(max(d @ S @ d, 0.0) * p["af"])
        if abs(vol - p["cap"]) < 1e-9 * max(1.0, p["cap"]):
            raise Discard("on the boundary")
        exp = vol > p["cap"]
        if bool(got) != exp:
            raise Violation("PTE_Rebalance(cap=%s) returned %r but tracking-error vol of live %s vs target is %r" % (p["cap"], got, live, vol), signature=sig)
        return {"nontrivial": len(cols) >= 2, "labels": labs + ["fires" if exp else "quiet"]}
    raise ValueError(name)


def known_match(spec, v):
    """open findings: identified by the call-site input class and the way it fails"""
    if spec.get("algo") == "LimitWeights" and v.signature == "c15:LimitWeights:nan":
        # ffn.limit_weights redistributes the excess over the weights below the cap in proportion to them;
        # NaN appears exactly when, at some round, those weights are all zero (0/0)
        lim = spec["params"]["limit"]
        w = dict(spec["weights"])
        for _ in range(50):
            below = [k for k, x in w.items() if x < lim]
            over = [k for k, x in w.items() if x > lim]
            if not over:
                break
            excess = sum(w[k] - lim for k in over)
            tot = sum(w[k] for k in below)
            if below and tot == 0:
                return "F10b-ffn-limit-weights-zero-remainder"
            for k in below:
                w[k] += w[k] / tot * excess
            for k in over:
                w[k] = lim
        else:
            return None
        below = [x for x in spec["weights"].values() if x < lim]
        if below and sum(below) == 0:
            return "F10b-ffn-limit-weights-zero-remainder"
    return None


SUBS = {a: case_weigh for a in ALGOS}
STRATS = {a: (lambda a_: (lambda: case_spec(algo=a_)))(a) for a in ALGOS}


def shard(ctx):
    per = ctx.n(6000, 100000) // len(ALGOS) + 1
    for a in ALGOS:
        run_sub(ctx, a, case_spec(algo=a), lambda s: case_weigh(ctx, s), per, known_match=known_match)
