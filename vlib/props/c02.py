"""C02 Value is conserved: P&L attribution reconciles day by day."""
import numpy as np
from hypothesis import strategies as st

from .. import gen, interp, machine
from ..harness import Discard, Violation, bt_frame_signature, run_sub
from . import c10

RULE = (
    "history: generated operation histories (see C01); after every operation the root's value moved by exactly minus the commissions and bid/offer costs of the trades the "
    "operation executed (plus the amount of an explicit adjust), and at the end the day-by-day identity dV = MTM of previous positions + flows + non-flow adjustments - fees - "
    "bid/offer is recomputed from the recorded series for the root and every sub-strategy. backtest: the same day-by-day identity on grammar-generated backtests "
    "(flat, nested, shorts, all cost models, CapitalFlow) and on fixed-income roots with coupon-paying securities (coupons less holding costs of the previous date enter). "
    "reopen: a security opened, closed, left idle for 0-4 dates while its price moves, and opened again through Rebalance, an allocation to the child, strategy-level transact with update=False (RollPositionsAfterDates' idiom), rebalance / security-level transact with update=False; same day-by-day identity. "
    "non-trivial = at least two dates with open positions and one costed trade. distinct = distinct spec hashes."
)
ASSUMPTIONS = ["non-flow adjustments and flows injected directly into descendants are known to the driver", "tolerance 1e-9 relative to capital + 1e-6 absolute"]
BUILDS = {"quick": ["py"], "thorough": ["py", "cy"]}
FLOORS = {"nested": ("history", 0.2)}


def attribution(bt, root, cap, ext=None, tag=""):
    """ext[path][i]: money that entered the subtree of `path` on date i other than through path's own recorded flows"""
    for S in root.members:
        if not isinstance(S, bt.core.StrategyBase):
            continue
        V = np.asarray(S.values, dtype=float)
        n = len(V)
        flows = np.asarray(S.flows, dtype=float)
        mtm = np.zeros(n)
        costs = np.zeros(n)
        carry = np.zeros(n)
        for m in S.members:
            if isinstance(m, bt.core.StrategyBase):
                costs += np.asarray(m.fees, dtype=float)
            else:
                pos = np.asarray(m.positions, dtype=float)
                pr = np.asarray(m.prices, dtype=float)
                prev_pos = np.concatenate([[0.0], pos[:-1]])
                dp = np.concatenate([[0.0], np.diff(pr)])
                contrib = np.where(prev_pos == 0, 0.0, prev_pos * dp * m.multiplier)
                if np.isnan(contrib).any():
                    raise Violation("%s: %s held a position across a date with a missing price" % (tag, m.full_name), signature="nan-mtm")
                mtm += contrib
                if m._bidoffer_set:
                    costs += np.asarray(m.bidoffers_paid, dtype=float)
                if isinstance(m, bt.core.CouponPayingSecurity):
                    cp = np.asarray(m.coupons, dtype=float) - np.asarray(m.holding_costs, dtype=float)
                    carry[1:] += cp[:-1]
        e = np.zeros(n)
        if ext and S.full_name in ext:
            e = np.asarray(ext[S.full_name][:n], dtype=float)
        lhs = np.diff(V, prepend=0.0)
        rhs = mtm + flows + e + carry - costs
        bad = np.abs(lhs - rhs) > 1e-9 * cap + 1e-6
        if bad.any():
            i = int(np.argmax(bad))
            raise Violation(
                "%s P&L attribution of %s at row %d: dV %r != mtm %r + flows %r + other known %r + carry %r - costs %r (residual %r)"
                % (tag, S.full_name, i, lhs[i], mtm[i], flows[i], e[i], carry[i], costs[i], lhs[i] - rhs[i]),
                signature="attribution",
            )


def case_history(ctx, spec):
    bt = ctx.bt
    try:
        run = machine.TreeRun(bt, spec)
    except ZeroDivisionError:
        raise Discard("zero base")
    labs = set(machine.history_labels(spec, None))
    cap = abs(spec["capital"])
    costed = 0
    dates_with_pos = 0
    try:
        for k, op in enumerate(spec["ops"]):
            tag = "op#%d %s" % (k, op)
            v0 = run.root.value
            held = any(s.pos != 0 for s in run.model.root.securities())
            ok = run.step(op)
            if not ok:
                continue
            applied = run.apply_trades_to_model()
            v1 = run.root.value
            if run.root.bankrupt:
                raise Discard("bankrupt")
            if op[0] == "next":
                if held:
                    dates_with_pos += 1
                # a date change moves value by exactly the mark-to-market of the positions actually held (executed quantities, not recorded rows)
                M = run.model
                mtm = 0.0
                for sec in M.root.securities():
                    if sec.pos != 0:
                        mtm += sec.pos * (M.px(sec, M.i) - M.px(sec, M.i - 1)) * sec.mult
                if not machine.close(v1 - v0, mtm, cap, rel=1e-9, ab=1e-6):
                    raise Violation("%s changed root value by %r but the positions held (executed quantities) were marked by %r" % (tag, v1 - v0, mtm), signature="date-change-mtm")
                continue
            cost = sum(fee + bo for _, _, _, fee, bo in applied)
            if cost != 0:
                costed += 1
            exp = -cost + (op[2] * spec["capital"] if op[0] == "adjust" else 0.0)
            if not machine.close(v1 - v0, exp, cap, rel=1e-9, ab=1e-6):
                raise Violation("%s changed root value by %r, expected %r (= -costs %r of its %d trades%s)" % (tag, v1 - v0, exp, cost, len(applied), " + adjust" if op[0] == "adjust" else ""), signature="same-date-conservation")
        M = run.model
        hist = M.hist + [M.snapshot_accumulators()]
        ext = {}
        for p, node in M.by_path.items():
            if node.issec:
                continue
            sub = [q for q in M.by_path if (q == p or q.startswith(p + ">")) and not M.by_path[q].issec]
            ext[p] = [sum(h[q]["nonflow"] for q in sub) + sum(h[q]["direct_flow"] for q in sub if q != p) for h in hist]
        attribution(bt, run.root, cap, ext, "history")
    except ZeroDivisionError:
        raise Discard("zero base")
    except (Violation, Discard):
        raise
    except Exception as e:
        raise Violation("history raised %s: %s" % (type(e).__name__, str(e)[:200]), signature="raises:" + bt_frame_signature(e))
    return {"nontrivial": dates_with_pos >= 1 and costed >= 1, "labels": sorted(labs)}


def case_backtest(ctx, spec):
    bt = ctx.bt
    ua = spec.get("user_algos")
    spec = {k_: v for k_, v in spec.items() if k_ != "user_algos"}
    try:
        b = c10.run_backtest(bt, spec)
    except Exception as e:
        raise Discard("run raised (C10's business): %s" % type(e).__name__)
    s = b.strategy
    attribution(bt, s, abs(spec.get("initial_capital", 1e6)), tag="backtest")
    labs = gen.spec_labels(spec) + (["user_algos=" + ua] if ua else [])
    costed = any((np.asarray(m.fees, dtype=float) != 0).any() for m in s.members if isinstance(m, bt.core.StrategyBase)) or any(
        m._bidoffer_set and (np.asarray(m.bidoffers_paid, dtype=float) != 0).any() for m in s.members if isinstance(m, bt.core.SecurityBase)
    )
    held = sum(1 for i in range(len(s.values)) if any(np.asarray(m.positions, dtype=float)[i] != 0 for m in s.members if isinstance(m, bt.core.SecurityBase)))
    return {"nontrivial": bool(costed) and held >= 2, "labels": labs}


def case_fi(ctx, spec):
    """fixed-income roots with coupon-paying securities: coupons less holding costs of the previous date enter the attribution"""
    bt = ctx.bt
    base = {k: v for k, v in spec.items() if k not in ("kinds", "weights", "nested")}
    try:
        b = c10.run_backtest(bt, base)
    except Exception as e:
        raise Discard("run raised (C10/C17's business): %s" % type(e).__name__)
    s = b.strategy
    # the decomposition below reads each security's multiplier from the node: it has to be the one the security was constructed with
    def _kids(nd):
        for c in (nd.get("children") or []):
            if isinstance(c, dict) and "sec" in c:
                yield nd, c
            elif isinstance(c, dict) and "name" in c:
                yield from _kids(c)
    for m in s.members:
        if isinstance(m, bt.core.SecurityBase):
            want = [c.get("mult", 1) for nd, c in _kids(base["tree"]) if c["sec"] == m.name and nd["name"] == m.parent.name]
            if want and float(m.multiplier) != float(want[0]):
                raise Violation("%s (%s) was constructed with multiplier %r but runs with %r" % (m.full_name, type(m).__name__, want[0], m.multiplier), signature="fi:multiplier-lost")
    # the carry entering the decomposition is recorded by the securities themselves: it has to be what the input tables say
    for m in s.members:
        if isinstance(m, bt.core.CouponPayingSecurity):
            pos = np.asarray(m.positions, dtype=float)[1:]
            fr = base["frames"]
            c = np.array([0.0 if x is None else x for x in fr["coupons"]["cols"][m.name]], dtype=float)
            hl = (fr.get("cost_long") or {}).get("cols", {}).get(m.name)
            hs = (fr.get("cost_short") or {}).get("cols", {}).get(m.name)
            if (fr.get("cost_long") or {}).get("dates") or (fr.get("cost_short") or {}).get("dates"):
                continue  # a table with its own dates is refused at setup (C10)
            hl = np.zeros(len(pos)) if hl is None else np.array([0.0 if x is None else x for x in hl], dtype=float)
            hs = np.zeros(len(pos)) if hs is None else np.array([0.0 if x is None else x for x in hs], dtype=float)
            n_ = min(len(pos), len(c))
            exph = np.where(pos[:n_] > 0, pos[:n_] * hl[:n_], np.where(pos[:n_] < 0, -pos[:n_] * hs[:n_], 0.0))
            goth = np.asarray(m.holding_costs, dtype=float)[1 : n_ + 1]
            gotc = np.asarray(m.coupons, dtype=float)[1 : n_ + 1]
            if not np.allclose(goth, exph, rtol=1e-12, atol=1e-9) or not np.allclose(gotc, pos[:n_] * c[:n_], rtol=1e-12, atol=1e-9):
                i = int(np.argmax(~(np.isclose(goth, exph, rtol=1e-12, atol=1e-9) & np.isclose(gotc, pos[:n_] * c[:n_], rtol=1e-12, atol=1e-9))))
                raise Violation("%s: carry recorded on row %d is coupon %r less holding cost %r; the input tables say %r less %r for position %r" % (m.full_name, i + 1, gotc[i], goth[i], pos[i] * c[i], exph[i], pos[i]), signature="fi:carry-vs-inputs")
    attribution(bt, s, 1e6, tag="fi")
    carry = any(isinstance(m, bt.core.CouponPayingSecurity) and ((np.asarray(m.coupons, dtype=float) != 0) | (np.asarray(m.holding_costs, dtype=float) != 0)).any() for m in s.members)
    return {"nontrivial": bool(carry), "labels": ["carry"] if carry else []}


SUBS = {"history": case_history, "backtest": case_backtest, "fi": case_fi}
def _fi_spec():
    from . import c17

    return c17.run_spec()


@st.composite
def backtest_spec(draw):
    """grammar backtests, some with user-style algos that follow the lazy-update protocol instead of refreshing the tree themselves:
    a root algo trading with update=False (the backtest loop owes the closing update), a sub-strategy stack ending with an update
    of the sub-strategy only"""
    spec = draw(gen.backtest_spec())
    nodes = list(gen.walk_nodes(spec["tree"]))
    k = draw(st.integers(0, 5))
    root = spec["tree"]
    has_sub = len(nodes) > 1
    if k == 0 and not has_sub:
        declared = [c if isinstance(c, str) else c["sec"] for c in root.get("children") or []] or sorted(spec["prices"])
        clean = [t for t in declared if all(x is not None for x in spec["prices"][t])]
        if clean:
            root["algos"] = root["algos"] + [["Or", {"algos": [["TradeNoUpdate", {"child": draw(st.sampled_from(clean)), "frac": draw(st.sampled_from([0.05, -0.05, 0.2])), "how": draw(st.sampled_from(["rebalance", "transact"]))}], ["Const", {"v": True}]]}]]
            root["algos"].insert(0, ["Or", {"algos": [["TradeNoUpdate", {"child": draw(st.sampled_from(clean)), "frac": draw(st.sampled_from([0.05, -0.1])), "how": "transact"}], ["Const", {"v": True}]]}])
            spec["user_algos"] = "trade_no_update"
    elif k == 1 and has_sub:
        for _, nd in nodes[1:]:
            nd["algos"] = nd["algos"] + [["UpdateSelf", {}]]
        spec["user_algos"] = "substrategy_updates_itself"
    return spec


@st.composite
def reopen_spec(draw):
    """a security is opened, closed, lies idle for a generated number of dates while its price moves, and is opened again through one of
    the ways a stack trades (Rebalance, allocation to the child, strategy-level transact with update=False as RollPositionsAfterDates
    does, rebalance / security-level transact with update=False): buying at the current price changes the value by the costs only"""
    lead, held, gap, tail = draw(st.sampled_from([0, 1, 2])), draw(st.sampled_from([1, 1, 2])), draw(st.sampled_from([0, 1, 2, 2, 3, 4])), draw(st.sampled_from([0, 1, 2]))
    d1 = lead
    d2 = d1 + held
    d3 = d2 + 1 + gap
    n = d3 + 1 + tail
    ds = draw(gen.dates(n, n, kinds=("bday", "daily")))
    nt = draw(st.integers(1, 3))
    tickers = gen.TICKERS[:nt]
    pr = {t: draw(gen.price_path(n, vol=0.03, decimals=4)) for t in tickers}
    x = tickers[0]
    how = draw(st.sampled_from(["strategy_transact", "strategy_transact", "rebalance", "transact", "allocate_child", "lazy", "Rebalance"]))

    def on(i, algo):
        return ["Or", {"algos": [["Stack", {"algos": [["RunOnDate", {"dates": [ds[i]]}], algo]}], ["Const", {"v": True}]]}]

    frac = draw(st.sampled_from([0.2, 0.5, -0.3]))
    frac2 = draw(st.sampled_from([0.1, 0.4, -0.2]))
    algos = [on(d1, ["TradeNoUpdate", {"child": x, "frac": frac, "how": "lazy"}]), on(d2, ["CloseChild", {"child": x}])]
    if how == "Rebalance":
        algos.append(on(d3, ["Stack", {"algos": [["WeighSpecified", {"weights": {x: abs(frac2)}}], ["Rebalance", {}]]}]))
    else:
        algos.append(on(d3, ["TradeNoUpdate", {"child": x, "frac": frac2 if how != "rebalance" else abs(frac2), "how": how}]))
    if nt > 1 and how != "Rebalance":
        # the rest of the book is held throughout
        algos.insert(0, on(0, ["Stack", {"algos": [["WeighSpecified", {"weights": {t: round(0.4 / (nt - 1), 4) for t in tickers[1:]}}], ["Rebalance", {}]]}]))
    spec = {
        "dates": ds,
        "prices": pr,
        "rng_seed": 0,
        "frames": {},
        "additional": [],
        "integer_positions": draw(st.booleans()),
        "initial_capital": 1e6,
        "fee": draw(gen.fee_spec(gen.min_price(pr), kinds=("none", "none", "fixed", "prop"))),
        "tree": {"name": "root", "kind": draw(st.sampled_from(["Strategy", "Strategy", "FixedIncomeStrategy"])), "algos": algos, "children": [{"sec": t, "kind": "Security", "mult": draw(st.sampled_from([1, 1, 10]))} if draw(st.integers(0, 3)) else t for t in tickers]},
        "user_algos": "reopen_after_%d_idle_dates_via_%s" % (min(d3 - d2 - 1, 3), how),
    }
    if draw(st.integers(0, 2)) == 0:
        spec["bidoffer"] = {t: [round(0.002 * v, 6) for v in pr[t]] for t in tickers}
    return spec


SUBS["reopen"] = case_backtest
STRATS = {"history": machine.history_spec, "backtest": backtest_spec, "fi": _fi_spec, "reopen": reopen_spec}


def shard(ctx):
    run_sub(ctx, "history", machine.history_spec(min_ops=5, max_ops=30), lambda s: case_history(ctx, s), ctx.n(1600, 30000))
    run_sub(ctx, "backtest", backtest_spec(), lambda s: case_backtest(ctx, s), ctx.n(1000, 20000))
    run_sub(ctx, "fi", _fi_spec(), lambda s: case_fi(ctx, s), ctx.n(600, 10000))
    run_sub(ctx, "reopen", reopen_spec(), lambda s: case_backtest(ctx, s), ctx.n(800, 12000))
