"""C09 A sub-strategy's index equals its stand-alone index, whatever it is allocated."""
import copy

import numpy as np
from hypothesis import strategies as st

from .. import gen, interp
from ..harness import Discard, Violation, run_sub
from . import c10

RULE = (
    "pair: a generated nested backtest whose sub-strategies have deterministic, calendar-gated stacks (any parent stack and allocation schedule incl. never/late/de-funding, parent "
    "capital 1e4..5e8, integer or fractional positions, any commission spec and spread) vs, for every sub-strategy, a stand-alone Backtest of the same definition over the same data "
    "with the same settings; one family has leveraged / short children on jumpy prices, which may go bankrupt on their own. Oracle: child.prices of the nested run equals the stand-alone strategy.prices date for date (1e-12 relative), and the parent's universe column of the "
    "child equals child.prices. dynamic_column: a sub-strategy opened during the run (pairs-trading pattern) after the parent has read its universe that date: read again, the universe has the child's column and it carries the child's index. pair_rot: the same comparison with every child's stack ending in RebalanceOverTime(n) marked run_always (an algo that keeps its state on the algo object and is reached on every date). non-trivial = the child trades at least twice and the parent's allocation to it changes at least once. distinct = distinct spec hashes."
)
ASSUMPTIONS = ["children use no RNG-based algos and are gated by a calendar scheduler (the statement's quantifier)", "stand-alone definitions that go bankrupt are compared too (their index freezes at the bankruptcy)"]
BUILDS = {"quick": ["py"], "thorough": ["py", "cy"]}


def find_nodes(tree, prefix=()):
    out = []
    for c in (tree.get("children") or []) + (tree.get("late") or []):
        if isinstance(c, dict) and "name" in c:
            out.append((prefix + (c["name"],), c))
            out += find_nodes(c, prefix + (c["name"],))
    return out


def case_pair(ctx, spec):
    bt = ctx.bt
    try:
        b = c10.run_backtest(bt, spec)
    except Exception as e:
        raise Discard("nested run raised (C10's business): %s" % type(e).__name__)
    root = b.strategy
    nt = False
    labs = gen.spec_labels(spec)
    for path, nd in find_nodes(spec["tree"]):
        child = root
        for p in path:
            child = child.children[p]
        alone = copy.deepcopy(spec)
        alone["tree"] = copy.deepcopy(nd)
        alone.pop("initial_capital", None)  # Backtest default
        try:
            b2 = c10.run_backtest(bt, alone)
        except Exception as e:
            raise Discard("stand-alone run raised: %s" % type(e).__name__)
        if b2.strategy.bankrupt:
            labs.append("standalone_bankrupt")
        p_nested = np.asarray(child.prices, dtype=float)
        p_alone = np.asarray(b2.strategy.prices, dtype=float)
        if len(p_nested) != len(p_alone):
            raise Violation("%s: nested index has %d rows, stand-alone %d" % (">".join(path), len(p_nested), len(p_alone)), signature="c09:len")
        bad = np.abs(p_nested - p_alone) > 1e-12 * np.maximum(np.abs(p_alone), 1.0)
        if bad.any():
            i = int(np.argmax(bad))
            raise Violation(
                "sub-strategy %s: index on row %d is %r inside the tree but %r stand-alone (child capital series %s)" % (">".join(path), i, p_nested[i], p_alone[i], np.asarray(child.values, dtype=float)[: i + 1].tolist()[-4:]),
                signature="c09:index",
            )
        # what the parent sees
        if child.name not in child.parent._universe.columns:
            raise Violation("the universe of %s has no column for its sub-strategy %s (columns %s)" % (child.parent.full_name, child.name, [str(c) for c in child.parent._universe.columns]), signature="c09:universe-column-missing")
        u = np.asarray(child.parent._universe[child.name].loc[: root.now], dtype=float)
        seen = u[1:]  # the synthetic row is written too; compare all rows that were written
        if not np.allclose(u, p_nested, rtol=1e-12, atol=0, equal_nan=True):
            i = int(np.argmax(~np.isclose(u, p_nested, rtol=1e-12, atol=0, equal_nan=True)))
            raise Violation("parent's universe column of %s row %d is %r but the child's index is %r" % (">".join(path), i, u[i], p_nested[i]), signature="c09:universe")
        trades2 = c10.n_trades(bt, b2)
        flows = np.asarray(child.flows, dtype=float)
        if trades2 >= 2 and int((flows != 0).sum()) >= 1 and (np.abs(np.diff(p_alone)) > 0).any():
            nt = True
        if not (flows != 0).any():
            labs.append("never_funded")
    return {"nontrivial": nt, "labels": labs}


def _strip_probes(spec):
    for _, nd in gen.walk_nodes(spec["tree"]):
        nd["algos"] = [a for a in nd.get("algos", []) if a[0] != "Probe"]
    return spec


def pair_spec():
    two = gen.backtest_spec(nested=True, deterministic_children=True, min_dates=4, max_dates=18)
    # three levels: a middle strategy allocating among its own sub-strategies (possibly by their price history), some of them unfunded for a while
    three = gen.backtest_spec(nested=True, deterministic_children=True, min_dates=5, max_dates=16, depth3=True, max_sub=2)
    # leveraged / short children on jumpy prices: the definition may lose more than its capital, alone and inside the tree alike
    from . import c16

    # sub-strategies attached after the parent was built (parent=), also to a parent that declared no children at all
    from . import c19

    late = c19.late_attach_spec().map(_strip_probes)
    lev = c16.run_spec(kinds=("nested",)).map(lambda sp: {k: v for k, v in sp.items() if k not in ("kind", "carry", "two_step", "ruinous_fee", "hedge_secs", "exact_zero")})
    return st.one_of(two, two, three, lev, late)


def _stateful_children(spec):
    """every sub-strategy ends its stack with RebalanceOverTime(n) marked run_always (it keeps its target and the number of steps left
    on the algo object and has to be reached on every date) instead of Rebalance: state kept by an algo of the definition belongs to each
    copy of the definition - the sub-strategy inside the tree, its shadow copy, the stand-alone backtest - separately"""
    k = 0
    for path, nd in gen.walk_nodes(spec["tree"]):
        if len(path) > 1 and nd.get("algos") and nd["algos"][-1][0] == "Rebalance":
            nd["algos"][-1] = ["RebalanceOverTime", {"n": 2 + (len(spec["dates"]) + k) % 4, "run_always": True}]
            k += 1
    spec["stateful_children"] = True
    return spec


def rot_spec():
    return gen.backtest_spec(nested=True, deterministic_children=True, min_dates=5, max_dates=18).map(_stateful_children)


@st.composite
def dynamic_column_spec(draw):
    """the parent has looked at its universe on a date (any signal or selection algo does), then opens a sub-strategy on that date the way
    the pairs-trading example does, and looks again"""
    ds = draw(gen.dates(4, 9, kinds=("bday", "daily")))
    n = len(ds)
    nt = draw(st.integers(2, 4))
    tickers = gen.TICKERS[:nt]
    pr = {t: draw(gen.price_path(n, vol=0.02, decimals=4)) for t in tickers}
    j = draw(st.integers(0, n - 2))
    sub_t = draw(st.lists(st.sampled_from(tickers), min_size=1, max_size=2, unique=True))
    algos = [["Probe", {"key": "c09dyn", "tag": "before"}], ["SpawnSub", {"date": ds[j], "name": "T1", "tickers": sub_t, "frac": draw(st.sampled_from([0.2, 0.5, None, None])), "declare": True}], ["Probe", {"key": "c09dyn", "tag": "after"}]]
    return {"dates": ds, "prices": pr, "rng_seed": 0, "frames": {}, "additional": [], "integer_positions": draw(st.booleans()), "initial_capital": 1e6, "fee": {"kind": "none"}, "tree": {"name": "root", "kind": "Strategy", "algos": algos, "children": list(tickers) if draw(st.booleans()) else None}, "spawn_on": ds[j]}


def case_dynamic_column(ctx, spec):
    import pandas as pd

    bt = ctx.bt
    holder = {}
    seen = []

    def cb(algo, target):
        if target is not holder.get("root"):
            return
        u = target.universe
        if algo.tag == "after" and "T1" in target.children:
            child = target.children["T1"]
            if "T1" not in u.columns:
                raise Violation("on %s the parent's universe, read again after the sub-strategy T1 was opened, has no column for it (columns %s)" % (target.now, [str(c) for c in u.columns]), signature="c09:dynamic-column-missing")
            cell = float(u["T1"].loc[target.now])
            if not abs(cell - float(child.price)) <= 1e-12 * max(1.0, abs(child.price)):
                raise Violation("on %s the parent sees %r for its sub-strategy T1 whose index is %r" % (target.now, cell, child.price), signature="c09:dynamic-column-value")
            seen.append(target.now)

    interp.Probe.registry["c09dyn"] = cb
    base = {k: v for k, v in spec.items() if k != "spawn_on"}
    if base["tree"].get("children") is None:
        base["tree"] = {k: v for k, v in base["tree"].items() if k != "children"}
    try:
        b = interp.mk_backtest(bt, base)
        holder["root"] = b.strategy
        b.run()
    except Violation:
        raise
    except Exception as e:
        raise Violation("opening a sub-strategy during the run raised %s: %s" % (type(e).__name__, str(e)[:200]), signature="c09:dynamic-raises")
    finally:
        interp.Probe.registry.pop("c09dyn", None)
    return {"nontrivial": len(seen) >= 2, "labels": ["spawned"] if seen else []}


SUBS = {"pair": case_pair, "pair_rot": case_pair, "dynamic_column": case_dynamic_column}
STRATS = {"pair": pair_spec, "pair_rot": rot_spec, "dynamic_column": dynamic_column_spec}


def shard(ctx):
    run_sub(ctx, "pair", pair_spec(), lambda s: case_pair(ctx, s), ctx.n(2400, 24000))
    run_sub(ctx, "dynamic_column", dynamic_column_spec(), lambda s: case_dynamic_column(ctx, s), ctx.n(400, 6000))
    run_sub(ctx, "pair_rot", rot_spec(), lambda s: case_pair(ctx, {k: v for k, v in s.items() if k != "stateful_children"}), ctx.n(600, 8000))
