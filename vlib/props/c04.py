"""C04 No look-ahead: results up to a date ignore all later data."""
import contextlib
import copy
import io
import math

import numpy as np
from hypothesis import strategies as st

from .. import gen, interp
from ..harness import Discard, Violation, run_sub
from . import c10

RULE = (
    "pair: a grammar-generated backtest (any scheduling/selection/statistic/weighting/rebalancing algo incl. look-back and lag windows, flat and nested trees, bid/offer, signals, dated "
    "target weights, stat frames), a generated cut date t and a generated perturbation of every supplied value dated after t (prices x random factors, late listings appearing, future data gaps, spreads, signals flipped, target weights and statistics replaced; index and columns untouched). Both runs use identical RNG seeds. Every node history truncated at t "
    "(prices, values, positions, cash, fees, flows, outlays, bid/offer paid, notional values) and the transactions dated <= t must be bit-identical (NaN == NaN); a node present in one run "
    "only must be flat up to t; an exception must be the same and raised on the same date if it is raised at or before t. non-trivial = the two runs differ somewhere after t and at least "
    "one trade happened at or before t. blotter: the same relation for ReplayTransactions / SimulateRFQTransactions fed with transaction / RFQ lists whose rows carry their own stamps (on and between bars) in time order, grouped by security or shuffled, "
    "rows stamped after t perturbed; plus the schedule itself (position on each bar == sum of the rows stamped up to it). gap: a ticker misses a print on bar t while flat, the strategy starts selecting on t, and in the second run the ticker never prints again after the cut (>= t). distinct = distinct spec hashes."
)
ASSUMPTIONS = ["only stock algos are quantified (user-written algos can look ahead at will)", "index and columns of the supplied frames are not perturbed"]
BUILDS = {"quick": ["py"], "thorough": ["py", "cy"]}


def perturb(spec):
    """second spec: values dated after the cut replaced as described in spec['perturb']"""
    s2 = copy.deepcopy(spec)
    pt = s2.pop("perturb")
    spec_cut = pt["cut"]  # index into dates: rows > cut are changed
    n = len(spec["dates"])
    k = 0
    fac = pt["factors"]

    def f():
        nonlocal k
        v = fac[k % len(fac)]
        k += 1
        return v

    for t, col in s2["prices"].items():
        if pt.get("delist") == t:
            for i in range(spec_cut + 1, n):
                col[i] = None
            continue
        for i in range(spec_cut + 1, n):
            x = f()
            if col[i] is None:
                if pt.get("list_early") and x > 1.0:
                    col[i] = round(10.0 * x, 4)
            elif x == 0.0:
                col[i] = None  # data gap / delisting in the future (may make the run raise after the cut; the prefix is still compared)
            else:
                col[i] = round(col[i] * x, 6)
    if s2.get("bidoffer"):
        for t, col in s2["bidoffer"].items():
            for i in range(spec_cut + 1, n):
                col[i] = round(col[i] * max(f(), 0.1), 8)
    cutd = spec["dates"][spec_cut]

    def later(d):
        return (d > cutd and len(d) == len(cutd)) or (len(d) != len(cutd) and d[:10] > cutd[:10])

    def change(col, fdates, isbool=False):
        for i, d in enumerate(fdates):
            if later(d):
                x = f()
                if isbool:
                    if x > 1.0:
                        col[i] = not col[i]
                elif col[i] is None:
                    if x > 1.1:
                        col[i] = round(x - 1.0, 4)
                else:
                    col[i] = None if x == 0.0 else round(col[i] * x - (0.1 if x < 0.8 else 0.0), 6)

    for nm, fr in (s2.get("frames") or {}).items():
        kind = fr.get("kind", "frame")
        fdates = fr.get("dates", spec["dates"])
        if kind == "frame":
            for c, col in fr["cols"].items():
                change(col, fdates, fr.get("dtype") == "bool")
        elif kind == "series":
            change(fr["values"], fdates)
        elif kind == "dictframes":
            for sub in fr["frames"].values():
                for c, col in sub.items():
                    change(col, spec["dates"])
        elif kind == "blotter":
            import pandas as pd

            for r in fr["rows"]:
                if pd.Timestamp(r[0]) > pd.Timestamp(cutd):
                    x = f()
                    r[2] = round(r[2] * (x if x != 0.0 else -1.5), 6)
                    r[3] = round(r[3] * max(f(), 0.5), 6)
        # 'table' frames (close / roll dates per security) are not dated rows
    return s2


def run_prefix(bt, spec, cutd):
    interp.seed_rngs(spec)
    b = interp.mk_backtest(bt, spec)
    err = None
    with contextlib.redirect_stdout(io.StringIO()):
        try:
            b.run()
        except Exception as e:
            err = (type(e).__name__, str(e)[:80])
    s = b.strategy
    now = s.now
    hist = {}
    try:
        upto = cutd if (now != 0 and now >= cutd) else now
        if now != 0:
            for m in s.members:
                hist[m.full_name] = node_series(bt, m, upto)
    except Exception as e:
        if err is None:
            raise
    tx = None
    if err is None and s.securities:
        t = s.get_transactions()
        t = t[t.index.get_level_values(0) <= cutd]
        tx = [(str(i[0]), i[1], _n(r["price"]), _n(r["quantity"])) for i, r in t.iterrows()]
    return b, err, now, hist, tx


def _n(x):
    x = float(x)
    return None if math.isnan(x) else x


def node_series(bt, m, upto):
    out = {}
    isstrat = isinstance(m, bt.core.StrategyBase)
    names = ["_prices", "_values", "_notl_values"] + (["_cash", "_fees", "_all_flows"] if isstrat else ["_positions", "_outlays"])
    if m._bidoffer_set:
        names.append("_bidoffers_paid")
    if isinstance(m, bt.core.CouponPayingSecurity):
        names += ["_coupon_income", "_holding_costs"]
    for nm in names:
        ser = getattr(m, nm)
        out[nm] = [_n(x) for x in np.asarray(ser.loc[:upto], dtype=float).tolist()]
    risks = getattr(m, "risks", None)
    if risks is not None:
        for c in risks.columns:
            out["_risks." + str(c)] = [_n(x) for x in np.asarray(risks[c].loc[:upto], dtype=float).tolist()]
    return out


def case_pair(ctx, spec):
    bt = ctx.bt
    import pandas as pd

    base = {k: v for k, v in spec.items() if k != "perturb"}
    cut = spec["perturb"]["cut"]
    cutd = pd.Timestamp(spec["dates"][cut])
    other = perturb(spec)
    b1, e1, now1, h1, tx1 = run_prefix(bt, base, cutd)
    b2, e2, now2, h2, tx2 = run_prefix(bt, other, cutd)
    early1 = e1 is not None and (now1 == 0 or now1 <= cutd)
    early2 = e2 is not None and (now2 == 0 or now2 <= cutd)
    if early1 or early2:
        if not (early1 and early2 and e1 == e2 and now1 == now2):
            raise Violation("changing data after %s changed an error at/before it: %s on %s vs %s on %s" % (cutd, e1, now1, e2, now2), signature="lookahead:error")
        raise Discard("both runs raise before the cut (C10's business)")
    for name in sorted(set(h1) | set(h2)):
        a, b = h1.get(name), h2.get(name)
        if a is None or b is None:
            present = a or b
            for nm, ser in present.items():
                if nm == "_prices":
                    continue
                if any(x not in (0.0, None) for x in ser):
                    raise Violation("node %s exists in one run only but is not flat up to %s: %s=%s" % (name, cutd, nm, ser), signature="lookahead:node")
            continue
        for nm in a:
            if a[nm] != b.get(nm):
                i = next(i for i, (x, y) in enumerate(zip(a[nm], b[nm])) if x != y) if len(a[nm]) == len(b[nm]) else -1
                raise Violation(
                    "data after %s changed %s.%s at or before it (row %d: %r vs %r)" % (cutd, name, nm[1:], i, a[nm][i] if i >= 0 else len(a[nm]), b[nm][i] if i >= 0 else len(b[nm])),
                    signature="lookahead:" + nm[1:],
                )
    if tx1 is not None and tx2 is not None and tx1 != tx2:
        raise Violation("data after %s changed the transactions dated up to it: %s vs %s" % (cutd, tx1[:6], tx2[:6]), signature="lookahead:transactions")
    # non-trivial: the future actually mattered, and something happened before the cut
    differs = e1 != e2
    if not differs:
        f1 = interp.tree_history(b1.strategy, bt) if e1 is None else None
        f2 = interp.tree_history(b2.strategy, bt) if e2 is None else None
        differs = f1 != f2
    traded = any(any(x not in (0.0, None) for x in h.get("_outlays", [])) for h in h1.values())
    labs = gen.spec_labels(base) + ["family=" + spec.get("family", "?")]
    return {"nontrivial": bool(differs and traded), "labels": labs}


# a lag is a wait, but users also pass anchored offsets: "0 business days" / "0 month ends" move a weekend or mid-month date FORWARD when
# subtracted, so "now - lag" can lie after now - the window or row that is read must still end at now
LAGS = st.sampled_from([{"days": 0}, {"days": 1}, {"days": 2}, {"days": 3}, {"days": 5}, {"bday": 0}, {"bday": 0}, {"bday": 1}, {"monthend": 0}])


@st.composite
def sparse_frame_spec(draw):
    """family aimed at data supplied on fewer dates than the price calendar (weekly scores on daily prices, dated targets, sparse
    signals) combined with lags: the algo must skip or look back, never forward"""
    ds = draw(gen.dates(6, 18, kinds=("bday", "daily", "daily", "mixed")))
    n = len(ds)
    nt = draw(st.integers(2, 4))
    tickers = gen.TICKERS[:nt]
    pr = draw(gen.prices(n, tickers, n_clean=nt))
    keep = sorted(draw(st.lists(st.integers(0, n - 1), min_size=1, max_size=max(1, n // 2), unique=True)))
    kind = draw(st.sampled_from(["setstat", "setstat", "target", "where"]))
    frames = {}
    if kind == "setstat":
        frames["f"] = {"kind": "frame", "dates": [ds[i] for i in keep], "cols": {t: [round(draw(st.floats(-1, 1, allow_nan=False)), 3) for _ in keep] for t in tickers}}
        mid = [["SetStat", {"frame": "f", "by_name": draw(st.booleans()), "lag": draw(LAGS)}], ["SelectN", {"n": draw(st.integers(1, nt)), "sort_descending": draw(st.booleans())}], ["WeighEqually", {}]]
    elif kind == "target":
        cols = {t: [] for t in tickers}
        for _ in keep:
            raw = [draw(st.integers(0, 5)) for _ in tickers]
            tot = float(sum(raw)) or 1.0
            for t, r in zip(tickers, raw):
                cols[t].append(round(r / tot, 4))
        frames["f"] = {"kind": "frame", "dates": [ds[i] for i in keep], "cols": cols}
        mid = [["WeighTarget", {"frame": "f", "by_name": draw(st.booleans())}]]
    else:
        frames["f"] = {"kind": "frame", "dtype": "bool", "dates": [ds[i] for i in keep], "cols": {t: [draw(st.booleans()) for _ in keep] for t in tickers}}
        mid = [["SelectWhere", {"frame": "f", "by_name": draw(st.booleans())}], ["Require", {"pred": "nonempty", "item": "selected"}], ["WeighEqually", {}]]
    return {
        "dates": ds,
        "prices": pr,
        "rng_seed": 0,
        "frames": frames,
        "additional": ["f"],
        "integer_positions": draw(st.booleans()),
        "initial_capital": 1e6,
        "fee": {"kind": "none"},
        "tree": {"name": "root", "kind": "Strategy", "algos": mid + [["Rebalance", {}]]},
    }


@st.composite
def vol_spec(draw):
    """family for the two stock algos that estimate a covariance over a look-back window ending at now - lag and are not part of the
    shared grammar: TargetVol (rescales weights) and PTE_Rebalance (gates a rebalance on the tracking error to a dated target frame)"""
    ds = draw(gen.dates(8, 20, kinds=("bday", "daily", "mixed")))
    n = len(ds)
    nt = draw(st.integers(2, 4))
    tickers = gen.TICKERS[:nt]
    pr = draw(gen.prices(n, tickers, n_clean=nt, vol=draw(st.sampled_from([0.01, 0.05]))))
    g = gen.max_gap_days(ds)
    lb = {"days": draw(st.integers(2 * g + 1, 6 * g + 10))}
    lag = draw(st.one_of(st.sampled_from([0, 0, 1, 2, g]).map(lambda d: {"days": d}), LAGS))
    cm = draw(st.sampled_from(["standard", "standard", "ledoit-wolf"]))
    after = draw(st.integers(3, max(3, n // 2)))
    frames = {}
    if draw(st.booleans()):
        ks = draw(st.lists(st.sampled_from(tickers), min_size=1, max_size=nt, unique=True))
        raw = [draw(st.integers(1, 6)) for _ in ks]
        ws = {k: round(r / float(sum(raw)), 4) for k, r in zip(ks, raw)}
        algos = [
            ["RunAfterDays", {"days": after}],
            draw(st.sampled_from([["RunDaily", {}], ["RunWeekly", {}], ["RunMonthly", {}]])),
            ["WeighSpecified", {"weights": ws}],
            ["TargetVol", {"target": draw(st.sampled_from([0.05, 0.1, 0.2, 0.4])), "lookback": lb, "lag": lag, "covar_method": cm}],
            ["Rebalance", {}],
        ]
        fam = "targetvol"
    else:
        cols = {t: [] for t in tickers}
        for _ in range(n):
            raw = [draw(st.integers(0, 5)) for _ in tickers]
            tot = float(sum(raw)) or 1.0
            for t, r in zip(tickers, raw):
                cols[t].append(round(r / tot, 4))
        frames["tw"] = {"kind": "frame", "cols": cols}
        pte = ["PTE_Rebalance", {"cap": draw(st.sampled_from([0.0, 0.01, 0.05, 0.2])), "frame": "tw", "lookback": lb, "lag": lag, "covar_method": cm}]
        algos = [["Or", {"algos": [["RunOnce", {}], ["Stack", {"algos": [["RunAfterDays", {"days": after}], pte]}]]}], ["WeighTarget", {"frame": "tw", "by_name": False}], ["Rebalance", {}]]
        fam = "pte"
    return {
        "dates": ds,
        "prices": pr,
        "rng_seed": 0,
        "frames": frames,
        "additional": [],
        "integer_positions": draw(st.booleans()),
        "initial_capital": 1e6,
        "fee": {"kind": "none"},
        "tree": {"name": "root", "kind": "Strategy", "algos": algos, "children": list(tickers)},
        "family": fam,
    }


@st.composite
def window_nested_spec(draw):
    """family for open-ended windows in a strategy that holds securities next to a sub-strategy: SelectHasData / SelectMomentum count
    or rank over the strategy's universe, which also carries the sub-strategy's price column; tickers list late, so whether a ticker
    qualifies at t must not depend on rows after t"""
    ds = draw(gen.dates(6, 16, kinds=("bday", "daily", "mixed")))
    n = len(ds)
    nt = draw(st.integers(2, 4))
    tickers = gen.TICKERS[:nt]
    pr = {}
    for t in tickers:
        late = draw(st.integers(0, n - 2)) if draw(st.booleans()) else 0
        pr[t] = draw(gen.price_path(n, late=late))
    if all(v[0] is None for v in pr.values()):
        pr[tickers[0]] = draw(gen.price_path(n))
    clean = [t for t in tickers if pr[t][0] is not None]
    g = gen.max_gap_days(ds)
    sel = draw(
        st.sampled_from(
            [
                [["SelectHasData", {"lookback": {"days": draw(st.integers(g + 1, 4 * g + 10))}, "min_count": draw(st.integers(1, 4))}]],
                [["SelectAll", {}], ["SelectMomentum", {"n": draw(st.integers(1, nt)), "lookback": {"days": draw(st.integers(g + 1, 3 * g + 8))}, "lag": draw(LAGS), "all_or_none": draw(st.booleans())}]],
            ]
        )
    )
    sub = {"name": "s1", "kind": "Strategy", "algos": [draw(gen.calendar_gate()), ["SelectThese", {"tickers": clean[:1]}], ["WeighEqually", {}], ["Rebalance", {}]], "children": clean[:1]}
    declare = draw(st.booleans())
    root = {"name": "root", "kind": "Strategy", "algos": [draw(gen.calendar_gate())] + sel + [["WeighEqually", {}], ["Rebalance", {}]], "children": [sub] + (list(tickers) if declare else [])}
    spec = {"dates": ds, "prices": pr, "rng_seed": 0, "frames": {}, "additional": [], "integer_positions": draw(st.booleans()), "initial_capital": 1e6, "fee": {"kind": "none"}, "tree": root, "family": "window_nested"}
    lates = [t for t in tickers if pr[t][0] is None]
    if lates and draw(st.integers(0, 3)) != 0:
        # aim the cut at the first dates of a late listing and let that ticker lose its later rows in the second run: whether it has
        # 'enough data' on those dates must be decided by the rows up to then
        t = draw(st.sampled_from(lates))
        first = next(i for i, v in enumerate(pr[t]) if v is not None)
        spec["perturb"] = {
            "cut": min(n - 2, first + draw(st.integers(0, 2))),
            "factors": draw(st.lists(st.sampled_from([0.5, 0.9, 1.1, 2.0, 1.0, 0.0]), min_size=5, max_size=20)),
            "list_early": draw(st.booleans()),
            "delist": t,
        }
    return spec


@st.composite
def anchored_lag_spec(draw):
    """family for lags given as anchored offsets on a seven-day calendar: BDay(0) / MonthEnd(0) subtracted from a weekend or mid-month
    date give a LATER date, so 'now - lag' lies in the future on those rows; every window still has to end at now"""
    import datetime as dt

    start = draw(st.sampled_from(["2021-02-08", "2019-12-23", "2020-02-24", "2023-06-26"]))
    ds = draw(gen.dates(10, 20, kinds=("daily",), start=start))
    n = len(ds)
    nt = draw(st.integers(2, 4))
    tickers = gen.TICKERS[:nt]
    pr = draw(gen.prices(n, tickers, n_clean=nt, vol=draw(st.sampled_from([0.03, 0.1]))))
    lag = draw(st.sampled_from([{"bday": 0}, {"bday": 0}, {"monthend": 0}]))
    lb = {"days": draw(st.integers(4, 12))}
    kind = draw(st.sampled_from(["momentum", "momentum", "invvol", "erc", "targetvol", "setstat"]))
    frames = {}
    if kind == "momentum":
        mid = [["SelectAll", {}], ["SelectMomentum", {"n": draw(st.integers(1, nt - 1)), "lookback": lb, "lag": lag}], ["WeighEqually", {}]]
    elif kind in ("invvol", "erc"):
        mid = [["RunAfterDays", {"days": 5}], ["SelectAll", {}], [{"invvol": "WeighInvVol", "erc": "WeighERC"}[kind], {"lookback": lb, "lag": lag}]]
    elif kind == "targetvol":
        mid = [["RunAfterDays", {"days": 5}], ["SelectAll", {}], ["WeighEqually", {}], ["TargetVol", {"target": 0.1, "lookback": lb, "lag": lag}]]
    else:
        frames["f"] = {"kind": "frame", "cols": {t: [round(draw(st.floats(-1, 1, allow_nan=False)), 3) for _ in range(n)] for t in tickers}}
        mid = [["SetStat", {"frame": "f", "by_name": draw(st.booleans()), "lag": lag}], ["SelectN", {"n": draw(st.integers(1, nt - 1))}], ["WeighEqually", {}]]
    spec = {
        "dates": ds,
        "prices": pr,
        "rng_seed": 0,
        "frames": frames,
        "additional": sorted(frames),
        "integer_positions": draw(st.booleans()),
        "initial_capital": 1e6,
        "fee": {"kind": "none"},
        "tree": {"name": "root", "kind": "Strategy", "algos": [["RunDaily", {}]] + mid + [["Rebalance", {}]]},
        "family": "anchored_lag",
    }
    # aim the cut at a row from which 'now - lag' points forward (a weekend for BDay(0), any day but the month end for MonthEnd(0))
    fwd = [i for i, d in enumerate(ds[:-1]) if (dt.date.fromisoformat(d[:10]).weekday() >= 5 if "bday" in lag else True) and i >= 5]
    if fwd:
        spec["perturb"] = {
            "cut": draw(st.sampled_from(fwd)),
            "factors": draw(st.lists(st.sampled_from([0.5, 0.7, 1.4, 2.0, 0.9, 1.1]), min_size=5, max_size=20)),
            "list_early": False,
            "delist": None,
        }
    return spec


# ---- blotters: transaction / RFQ lists with their own time stamps ---------------------------------------------
@st.composite
def blotter_spec(draw):
    """ReplayTransactions / SimulateRFQTransactions execute, on each bar, the rows stamped after the previous bar and no later than this
    one. The rows carry arbitrary stamps (between bars too) and the frame need not be sorted by time (grouped by instrument, two desks
    concatenated): a row stamped after t must not act at or before t."""
    import datetime as dt

    ds = draw(gen.dates(4, 12, kinds=("bday", "daily", "mixed")))
    n = len(ds)
    nt = draw(st.integers(1, 3))
    tickers = gen.TICKERS[:nt]
    pr = {t: draw(gen.price_path(n, vol=0.02, decimals=4)) for t in tickers}
    rows = []
    for _ in range(draw(st.integers(2, 12))):
        i = draw(st.integers(0, n - 1))
        t = draw(st.sampled_from(tickers))
        stamp = ds[i] if draw(st.booleans()) else (dt.datetime.fromisoformat(ds[i]) - dt.timedelta(hours=draw(st.sampled_from([1, 5, 11])))).isoformat()
        q = float(draw(st.integers(1, 300)) * draw(st.sampled_from([1, 1, -1])))
        rows.append([stamp, t, q, round(pr[t][i] * draw(st.sampled_from([1.0, 0.99, 1.01, 1.002])), 4)])
    order = draw(st.sampled_from(["sorted", "by_security", "shuffled", "shuffled"]))
    if order == "sorted":
        rows.sort(key=lambda r: (r[0][:10], r[0]))
        rows.sort(key=lambda r: dt.datetime.fromisoformat(r[0]))
    elif order == "by_security":
        rows.sort(key=lambda r: dt.datetime.fromisoformat(r[0]))
        rows.sort(key=lambda r: r[1])
    else:
        rows = draw(st.permutations(rows))
    algo = draw(st.sampled_from([["ReplayTransactions", {"frame": "tx"}], ["SimulateRFQTransactions", {"frame": "tx", "min_qty": draw(st.sampled_from([0.0, 50.0]))}]]))
    spec = {
        "family": "blotter",
        "order": order,
        "dates": ds,
        "prices": pr,
        "rng_seed": 0,
        "frames": {"tx": {"kind": "blotter", "rows": [list(r) for r in rows]}},
        "additional": ["tx"],
        "bidoffer": {},
        "integer_positions": False,
        "initial_capital": 1e10,  # the blotter is executed whatever it costs: enough capital that no generated blotter ruins the book
        "fee": draw(gen.fee_spec(gen.min_price(pr), kinds=("none", "prop"))),
        "tree": {"name": "root", "kind": "Strategy", "algos": [algo], "children": [{"sec": t, "kind": "Security", "mult": draw(st.sampled_from([1.0, 1.0, 10.0]))} for t in tickers]},
    }
    spec["perturb"] = {"cut": draw(st.integers(0, n - 2)), "factors": draw(st.lists(st.sampled_from([0.5, 0.7, 0.9, 1.1, 1.4, 2.0, 0.0]), min_size=5, max_size=20)), "list_early": False, "delist": None}
    return spec


def case_blotter(ctx, spec):
    import pandas as pd

    bt = ctx.bt
    res = case_pair(ctx, spec)
    # independent schedule: the position on each bar is the sum of the rows stamped up to that bar (rows below the model's size floor skipped)
    base = {k: v for k, v in spec.items() if k not in ("perturb", "family", "order")}
    interp.seed_rngs(base)
    b = interp.mk_backtest(bt, base)
    try:
        with contextlib.redirect_stdout(io.StringIO()):
            b.run()
    except Exception as e:
        raise Discard("run raised (C10's business): %s" % type(e).__name__)
    if b.strategy.bankrupt:
        raise Discard("the blotter ruins the book (liquidated)")
    algo = spec["tree"]["algos"][0]
    floor = algo[1].get("min_qty", 0.0)
    bars = [pd.Timestamp(d) for d in spec["dates"]]
    rows = spec["frames"]["tx"]["rows"]
    first = bars[0] - pd.DateOffset(days=1)
    out_of_order = any(pd.Timestamp(a[0]) > pd.Timestamp(b_[0]) for a, b_ in zip(rows, rows[1:]))
    for t in spec["prices"]:
        got = np.asarray(b.strategy.children[t].positions.loc[bars[0] :], dtype=float)
        for i, bar in enumerate(bars):
            exp = sum(r[2] for r in rows if r[1] == t and abs(r[2]) >= floor and first < pd.Timestamp(r[0]) <= bar)
            if abs(got[i] - exp) > 1e-9 * max(1.0, abs(exp)):
                raise Violation("%s of a blotter in %s order: position of %s on %s is %r, the rows stamped up to then add up to %r (rows %s)" % (algo[0], spec["order"], t, bar, got[i], exp, rows), signature="lookahead:blotter-schedule")
    res["labels"] = ["family=blotter", "order=" + spec["order"], algo[0]] + (["rows_out_of_time_order"] if out_of_order else [])
    res["nontrivial"] = bool(res["nontrivial"] and out_of_order)
    return res


# ---- a missing print while flat: survivorship must not leak in ----------------------------------------------------
@st.composite
def interior_gap_spec(draw):
    """one ticker has no print on bar t (a holiday on its exchange) while nobody holds it; the strategy starts selecting on t. Whether
    that ticker ever prints again is future information: in the second run it is delisted after the cut (>= t). What is traded on t must
    not depend on it."""
    ds = draw(gen.dates(5, 12, kinds=("bday", "daily", "mixed")))
    n = len(ds)
    nt = draw(st.integers(2, 4))
    tickers = gen.TICKERS[:nt]
    pr = {t: draw(gen.price_path(n, vol=0.02, decimals=4)) for t in tickers}
    g = draw(st.sampled_from(tickers))
    t = draw(st.integers(1, n - 3))
    pr[g][t] = None
    if t + 1 < n - 2 and draw(st.integers(0, 3)) == 0:
        pr[g][t + 1] = None  # a two-bar gap
    gate = draw(st.sampled_from(["on_dates", "after"]))
    if gate == "on_dates":
        later = sorted(draw(st.lists(st.integers(t + 1, n - 1), min_size=0, max_size=3, unique=True)))
        head = [["RunOnDate", {"dates": [ds[t]] + [ds[i] for i in later]}]]
    else:
        head = [["RunAfterDate", {"date": ds[t - 1]}]]
    sel = draw(st.sampled_from([["SelectAll", {}], ["SelectHasData", {"lookback": {"days": 3}, "min_count": 1}], ["SelectThese", {"tickers": list(tickers)}]]))
    weigh = draw(st.sampled_from([["WeighEqually", {}], ["WeighEqually", {}], ["WeighRandomly", {}]]))
    spec = {
        "family": "interior_gap",
        "dates": ds,
        "prices": pr,
        "rng_seed": draw(st.integers(0, 5)),
        "frames": {},
        "additional": [],
        "integer_positions": draw(st.booleans()),
        "initial_capital": 1e6,
        "fee": draw(gen.fee_spec(gen.min_price(pr), kinds=("none", "prop"))),
        "tree": {"name": "root", "kind": "Strategy", "algos": head + [sel, weigh, ["Rebalance", {}]]},
    }
    spec["perturb"] = {"cut": draw(st.integers(t, n - 2)), "factors": draw(st.lists(st.sampled_from([0.7, 0.9, 1.1, 1.4, 1.0]), min_size=5, max_size=20)), "list_early": False, "delist": g}
    return spec


@st.composite
def pair_spec(draw):
    k = draw(st.integers(0, 21))
    if k == 21:
        spec = draw(anchored_lag_spec())
    elif k == 20:
        spec = draw(window_nested_spec())
    elif k < 4:
        spec = draw(sparse_frame_spec())
        spec["family"] = "sparse_frame"
    elif k < 7:
        spec = draw(vol_spec())
    elif k < 10:
        # fixed-income books: dated coupons, long/short holding costs, notional schedule, spreads
        from . import c17

        spec = draw(c17.run_spec())
        spec["family"] = "fixed_income"
        if "cost_long" in spec["frames"] and draw(st.integers(0, 3)) == 0 and len(spec["dates"]) >= 4:
            # a holding-cost table that starts later than the prices (its rows carry their own dates)
            k0 = draw(st.integers(1, 2))
            fr = spec["frames"]["cost_long"]
            fr["dates"] = spec["dates"][k0:]
            fr["cols"] = {t: v[k0:] for t, v in fr["cols"].items()}
            spec["family"] = "fixed_income_late_cost_table"
    elif k < 12:
        # dated unit-risk tables read by UpdateRisk / HedgeRisks
        from . import c20

        spec = draw(c20.risk_spec(hedge=draw(st.booleans())))
        spec["family"] = "risk"
    else:
        spec = draw(gen.backtest_spec(min_dates=4, max_dates=18, depth3=draw(st.integers(0, 5)) == 0))
        spec["family"] = "grammar"
    n = len(spec["dates"])
    if "perturb" in spec:
        return spec
    spec["perturb"] = {
        "cut": draw(st.integers(0, n - 2)),
        "factors": draw(st.lists(st.sampled_from([0.5, 0.7, 0.9, 0.97, 1.03, 1.1, 1.4, 2.0, 1.0, 0.0]), min_size=5, max_size=40)),
        "list_early": draw(st.booleans()),
        "delist": draw(st.sampled_from([None, None] + sorted(spec["prices"]))),
    }
    return spec


SUBS = {"pair": case_pair, "blotter": case_blotter, "gap": case_pair}
STRATS = {"pair": pair_spec, "blotter": blotter_spec, "gap": interior_gap_spec}


def shard(ctx):
    run_sub(ctx, "pair", pair_spec(), lambda s: case_pair(ctx, s), ctx.n(5000, 60000))
    run_sub(ctx, "blotter", blotter_spec(), lambda s: case_blotter(ctx, s), ctx.n(800, 12000))
    run_sub(ctx, "gap", interior_gap_spec(), lambda s: case_pair(ctx, s), ctx.n(800, 12000))
