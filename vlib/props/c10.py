"""C10 Well-formed runs complete with finite results; ill-formed states raise."""
import contextlib
import io
import math

import numpy as np
from hypothesis import strategies as st

from .. import gen, interp
from ..harness import Discard, Violation, bt_frame_signature, run_sub

RULE = (
    "wellformed: grammar-generated backtests (dates x prices x tree x algo stack x cost model x position mode) run to completion, "
    "then every report accessor is called and every recorded number must be finite; non-trivial = at least one trade happened. "
    "report_order: grammar, fixed-income and maturing-securities backtests (closed positions lying idle) whose report accessors are asked for in a generated order straight after the run: each completes, and weights are finite on every date with a non-zero root value (notional value for fixed-income roots). "
    "builds_agree: the same generated spec run by the interpreted and by the compiled build of the working-tree sources (fresh processes) gives the same histories (1e-9). "
    "illformed_*: one generated family per ill-formed class of the statement; must raise (and where the statement implies refusal, leave state unchanged); "
    "non-trivial = the ill-formed state was actually reached. distinct = distinct spec hashes."
)
ASSUMPTIONS = [
    "only the installed pandas/numpy/ffn versions are exercised",
    "third-party optimiser non-convergence (ffn ERC / mean-variance) on generated windows is discarded, not judged",
]
BUILDS = {"quick": ["py"], "thorough": ["py", "cy"]}

DEP_DISCARD = ("No solution found after", "Inequality constraints incompatible", "Positive directional derivative", "Singular matrix", "Iteration limit")


def _finite_series(name, s, allow_nan_mask=None):
    arr = np.asarray(s, dtype=float)
    bad = ~np.isfinite(arr)
    if allow_nan_mask is not None:
        bad = bad & ~(np.isnan(arr) & allow_nan_mask)
    if bad.any():
        raise Violation("non-finite value recorded in %s at row %d: %r" % (name, int(np.argmax(bad)), arr[bad][0]), signature="nonfinite:" + name.split("[")[0])


def run_backtest(bt, spec):
    interp.seed_rngs(spec)
    b = interp.mk_backtest(bt, spec)
    with contextlib.redirect_stdout(io.StringIO()), contextlib.redirect_stderr(io.StringIO()):
        b.run()
    return b


def check_finite(bt, b, spec):
    s = b.strategy
    data = b.data
    for m in s.members:
        isstrat = isinstance(m, bt.core.StrategyBase)
        for nm in ["values", "notional_values"] + (["prices", "cash", "fees", "flows"] if isstrat else ["positions", "outlays"]):
            _finite_series("%s.%s" % (m.full_name, nm), getattr(m, nm))
        if not isstrat:
            pr = m.prices
            if m.name in data.columns:
                mask = np.isnan(np.asarray(data[m.name].loc[: s.now], dtype=float))
            else:
                mask = np.ones(len(pr), dtype=bool)
            _finite_series("%s.prices" % m.full_name, pr, mask)
            if m._bidoffer_set:
                _finite_series("%s.bidoffers_paid" % m.full_name, m.bidoffers_paid)


def reports(bt, b, spec):
    """call every report accessor; values finite where defined"""
    s = b.strategy
    w = b.weights
    sw = b.security_weights
    b.positions
    b.herfindahl_index
    b.turnover
    res = bt.backtest.Result(b)
    res.get_weights()
    res.get_security_weights()
    if s.securities:
        res.get_transactions()
    buf = io.StringIO()
    with contextlib.redirect_stdout(buf):
        res.display()
    res.prices
    res.stats
    vals = np.asarray(s.values, dtype=float)
    ok_rows = np.abs(vals) > 1e-9
    for nm, df in (("weights", w), ("security_weights", sw)):
        arr = np.asarray(df, dtype=float)
        if arr.size:
            sub = arr[ok_rows[: arr.shape[0]]]
            if not np.isfinite(sub).all():
                raise Violation("report %s has non-finite entries on dates with non-zero value" % nm, signature="nonfinite-report:" + nm)
    return res


def n_trades(bt, b):
    n = 0
    for m in b.strategy.members:
        if isinstance(m, bt.core.SecurityBase):
            n += int((np.asarray(m.outlays, dtype=float) != 0).sum())
    return n


def case_wellformed(ctx, spec):
    bt = ctx.bt
    try:
        b = run_backtest(bt, spec)
        check_finite(bt, b, spec)
        reports(bt, b, spec)
    except Violation:
        raise
    except Exception as e:
        msg = str(e)
        if any(k in msg for k in DEP_DISCARD):
            raise Discard("dependency did not converge")
        if "NaN" in msg and any(l in ("algo=WeighMeanVar", "algo=WeighERC", "algo=WeighInvVol") for l in gen.spec_labels(spec)):
            # the third-party optimiser returned NaN weights on a degenerate (near-constant) window; weight correctness is C15's business
            raise Discard("dependency produced NaN weights on a degenerate window")
        sig = bt_frame_signature(e)
        raise Violation("well-formed backtest raised %s: %s" % (type(e).__name__, msg[:300]), signature=sig)
    nt = n_trades(bt, b)
    labs = gen.spec_labels(spec)
    if b.strategy.bankrupt:
        labs.append("bankrupt")
    return {"nontrivial": nt > 0, "labels": labs}


# ---- reports asked for in any order, straight after the run ---------------------------------------------------------
REPORTS = ["weights", "security_weights", "positions", "herfindahl_index", "turnover", "get_weights", "get_security_weights", "get_transactions", "display", "stats", "node_series"]


@st.composite
def report_order_spec(draw):
    from . import c17, c20

    k = draw(st.integers(0, 5))
    if k < 2:
        spec = draw(gen.backtest_spec(max_dates=14))
    elif k < 4:
        spec = draw(c17.run_spec())
    else:
        # books in which securities mature, are closed and then lie idle for the rest of the run (fixed-income roots half of the time)
        spec = draw(c20.close_spec())
        spec = {k_: v for k_, v in spec.items() if k_ not in ("close_dates", "close_last")}
    spec["report_order"] = draw(st.permutations(REPORTS))
    return spec


def case_report_order(ctx, spec):
    """the first thing a user does with a finished run is ask for one report - whichever it is, it completes and holds finite numbers
    wherever it is defined (a weight is defined on every date on which the root's value - notional value for a fixed-income root - is not zero)"""
    bt = ctx.bt
    base = {k: v for k, v in spec.items() if k != "report_order"}
    try:
        b = run_backtest(bt, base)
    except Exception as e:
        raise Discard("run raised (wellformed sub-check's business): %s" % type(e).__name__)
    s = b.strategy
    res = None
    for k, nm in enumerate(spec["report_order"]):
        try:
            out = None
            if nm == "node_series":
                check_finite(bt, b, base)
            elif nm in ("weights", "security_weights", "positions", "herfindahl_index", "turnover"):
                out = getattr(b, nm)
            else:
                if res is None:
                    res = bt.backtest.Result(b)
                if nm == "display":
                    with contextlib.redirect_stdout(io.StringIO()):
                        res.display()
                elif nm == "stats":
                    res.stats
                elif nm == "get_transactions":
                    if s.securities:
                        out = res.get_transactions()
                else:
                    out = getattr(res, nm)()
        except Violation:
            raise
        except Exception as e:
            msg = str(e)
            if any(k_ in msg for k_ in DEP_DISCARD):
                raise Discard("dependency did not converge")
            raise Violation("report %s asked for as #%d after the run (order %s) raised %s: %s" % (nm, k, spec["report_order"], type(e).__name__, msg[:200]), signature="report-raises:" + nm)
        if nm in ("weights", "security_weights", "get_weights", "get_security_weights") and out is not None:
            basev = np.asarray(s.notional_values if s.fixed_income else s.values, dtype=float)
            ok_rows = np.abs(basev) > 1e-9
            arr = np.asarray(out, dtype=float)
            if arr.size:
                sub = arr[ok_rows[: arr.shape[0]]]
                if not np.isfinite(sub).all():
                    r, c = np.argwhere(~np.isfinite(arr) & ok_rows[: arr.shape[0], None])[0]
                    raise Violation(
                        "report %s asked for as #%d after the run (order %s): non-finite entry for %s on %s although the root's %s is %r" % (nm, k, spec["report_order"][: k + 1], out.columns[c], out.index[r], "notional value" if s.fixed_income else "value", basev[r]),
                        signature="nonfinite-report:" + nm,
                    )
        elif nm == "positions" and out is not None and np.asarray(out, dtype=float).size and not np.isfinite(np.asarray(out, dtype=float)).all():
            raise Violation("report positions asked for as #%d has non-finite entries" % k, signature="nonfinite-report:positions")
    idle = False
    for m in s.members:
        if isinstance(m, bt.core.SecurityBase):
            pos = np.asarray(m.positions, dtype=float)
            nz = np.nonzero(pos)[0]
            if len(nz) and nz[-1] < len(pos) - 2:
                idle = True
    labs = ["fi_root" if s.fixed_income else "mv_root", "first=" + spec["report_order"][0]] + (["security_closed_and_idle"] if idle else [])
    return {"nontrivial": idle and n_trades(bt, b) > 0, "labels": labs}


# ---- ill-formed classes ---------------------------------------------------------------------------
ILL = ["trade_nan_price", "transact_nan_price", "trade_zero_price", "nan_price_open_position", "nan_coupon_open_position", "duplicate_columns", "zero_base_mv", "zero_base_fi", "fi_under_mv", "custom_price_no_bidoffer", "misaligned_rate_table", "custom_price_nan", "zero_base_fi_after_notional", "trade_nan_bidoffer"]


@st.composite
def ill_spec(draw, klass=None):
    klass = klass or draw(st.sampled_from(ILL))
    ds = draw(gen.dates(3, 8, kinds=("bday", "daily", "mixed")))
    n = len(ds)
    nt = draw(st.integers(1, 3))
    tickers = gen.TICKERS[:nt]
    pr = draw(gen.prices(n, tickers, n_clean=nt))
    spec = {"class": klass, "dates": ds, "prices": pr, "integer_positions": draw(st.booleans()), "initial_capital": draw(st.sampled_from([1e6, 1e5])), "k": draw(st.integers(1, n - 1)), "bad": draw(st.sampled_from(tickers))}
    spec["fee"] = draw(gen.fee_spec(gen.min_price(pr), kinds=("none", "fixed", "prop")))
    spec["spread"] = draw(st.sampled_from([None, 0.01]))
    spec["amount"] = draw(st.sampled_from([0.1, 0.5, -0.2, 1e-3]))
    spec["nested"] = draw(st.booleans())
    spec["mult"] = draw(st.sampled_from([1, 10]))
    # custom transaction price as a multiple of the market price (0.0: a position written off / delivered free) and quantity
    spec["custom_px"] = draw(st.sampled_from([1.01, 0.97, 1.0, 0.0, 0.0]))
    spec["custom_q"] = draw(st.sampled_from([5.0, -3.0, 1.0]))
    spec["custom_flat"] = draw(st.booleans())
    spec["rate_kind"] = draw(st.sampled_from(["coupon", "coupon", "cost_long", "cost_short"]))
    return spec


def _tree(bt, spec, fi=False):
    tickers = sorted(spec["prices"])
    kids = [bt.core.Security(t, multiplier=spec["mult"]) if spec["mult"] != 1 else t for t in tickers]
    if spec.get("nested"):
        sub = bt.core.StrategyBase("sub", children=kids)
        return bt.core.StrategyBase("root", children=[sub]), "root>sub"
    return bt.core.StrategyBase("root", children=kids), "root"


def _state(bt, root):
    out = {}
    for m in root.members:
        out[m.full_name] = (float(m.capital),) if isinstance(m, bt.core.StrategyBase) else (float(m.position),)
    return out


def case_illformed(ctx, spec):
    try:
        return _case_illformed(ctx, spec)
    except (Violation, Discard):
        raise
    except Exception as e:
        # everything outside must_raise() is a well-formed use of the API
        raise Violation("well-formed preparation of the %s case raised %s: %s" % (spec["class"], type(e).__name__, str(e)[:200]), signature="ill:setup-raises:" + bt_frame_signature(e))


def _case_illformed(ctx, spec):
    import pandas as pd

    bt = ctx.bt
    klass = spec["class"]
    ds = spec["dates"]
    k = spec["k"]
    bad = spec["bad"]
    pr = {t: list(v) for t, v in spec["prices"].items()}
    cap = spec["initial_capital"]
    labs = [klass]

    def must_raise(fn, what, unchanged_root=None):
        before = _state(bt, unchanged_root) if unchanged_root is not None else None
        try:
            fn()
        except Exception as e:
            if unchanged_root is not None:
                after = _state(bt, unchanged_root)
                # a child created lazily by the refused call is fine as long as it is flat
                diff = {kk: (before.get(kk), after.get(kk)) for kk in after if before.get(kk, (0.0,)) != after.get(kk)}
                if diff:
                    raise Violation("%s was refused (%s) but changed the state: %s" % (what, type(e).__name__, diff), signature="ill:%s:partial-write" % klass)
            return type(e).__name__
        raise Violation("%s did not raise" % what, signature="ill:%s:no-error" % klass)

    if klass == "duplicate_columns":
        data = interp.mk_frame(ds, pr)
        data = pd.concat([data, data[[bad]]], axis=1)
        must_raise(lambda: bt.Backtest(bt.Strategy("s", [bt.algos.RunDaily(), bt.algos.SelectAll(), bt.algos.WeighEqually(), bt.algos.Rebalance()]), data, progress_bar=False), "Backtest over data with duplicate column %s" % bad)
        return {"nontrivial": True, "labels": labs}
    if klass == "misaligned_rate_table":
        # coupons and holding costs are read by row number: a table whose rows are dated differently from the prices would be read
        # on the wrong dates (later ones, if it starts late), so it has to be refused like a misaligned coupon table is
        data = interp.mk_frame(ds, pr)
        coup = interp.mk_frame(ds, {t: [0.01] * len(ds) for t in pr})
        late = interp.mk_frame(ds[k:] if k < len(ds) else ds[1:], {t: [0.001] * len(ds[k:] if k < len(ds) else ds[1:]) for t in pr})
        which = ["coupons", "cost_long", "cost_short"][spec.get("custom_q", 5.0) == 5.0 and 1 or (spec.get("custom_q") == -3.0 and 2 or 0)]
        kw = {"coupons": coup}
        kw[which] = late
        root = bt.core.FixedIncomeStrategy("root", children=[bt.core.CouponPayingSecurity(t) for t in sorted(pr)])
        must_raise(lambda: root.setup(data, **kw), "setup with a %s table that starts on %s while the prices start on %s" % (which, late.index[0], data.index[0]))
        labs.append(which)
        return {"nontrivial": True, "labels": labs}
    if klass == "fi_under_mv":
        data = interp.mk_frame(ds, pr)
        child = bt.core.FixedIncomeStrategy("fi", children=sorted(pr))
        parent = bt.core.Strategy("mv", [], children=[child])
        must_raise(lambda: parent.setup(data), "setup of a fixed-income strategy under a market-value parent")
        # the same refusal when the fixed-income strategy is attached to an already set-up market-value parent afterwards
        class LateFI(bt.core.FixedIncomeStrategy):
            def __init__(self, name, algos=None, children=None, parent=None):
                bt.core.Strategy.__init__(self, name, algos=algos, children=children, parent=parent)
                self._fixed_income = True

        mv = bt.core.Strategy("mv2", [], children=sorted(pr)[:1])
        mv.setup(data)
        mv.adjust(cap)
        mv.update(data.index[0])

        def attach():
            late = LateFI("late_fi", children=sorted(pr), parent=mv)
            late.setup_from_parent()

        must_raise(attach, "attaching a fixed-income strategy to a set-up market-value parent (parent=, setup_from_parent)")
        # the supported nesting must keep working
        ok_parent = bt.core.FixedIncomeStrategy("fi_root", children=[bt.core.FixedIncomeStrategy("fi", children=sorted(pr))])
        try:
            ok_parent.setup(data)
        except Exception as e:
            raise Violation("fixed-income child under a fixed-income parent refused: %s" % e, signature="ill:fi_under_fi-refused")
        return {"nontrivial": True, "labels": labs}
    # tree-level classes use the direct API on a set-up tree
    if klass in ("trade_nan_price", "nan_price_open_position", "transact_nan_price"):
        pr[bad][k] = None
    if klass == "nan_price_open_position" and spec.get("custom_flat") and k >= 3:
        # the quote is 0 (a suspended name marked at nothing) for two dates before it disappears: the position is still open
        pr[bad][k - 1] = 0.0
        pr[bad][k - 2] = 0.0
        labs.append("zero_marks_before_the_gap")
    if klass == "trade_zero_price":
        pr[bad][k] = 0.0
    if klass == "zero_base_fi_after_notional":
        # a fixed-income book that carried notional, wound it down to exactly zero while a hedge (zero notional by definition) stays open:
        # from the second date without notional on, the hedge's P&L has no base to be a return on - whatever base was there before
        h = [round(50.0 * (1.0 + 0.01 * ((-1) ** i) * (i + 1)), 4) for i in range(len(ds))]
        data = interp.mk_frame(ds, dict(pr, hedge_=h))
        idx = data.index
        hk = bt.core.CouponPayingHedgeSecurity if spec.get("custom_flat") else bt.core.HedgeSecurity
        root = bt.core.FixedIncomeStrategy("root", children=[bt.core.FixedIncomeSecurity(t) for t in sorted(pr)] + [hk("hedge_")])
        kw = {"coupons": interp.mk_frame(ds, {"hedge_": [0.0] * len(ds)})} if spec.get("custom_flat") else {}
        root.setup(data, **kw)
        root.use_integer_positions(False)
        root.update(idx[0])
        q = 100.0 * spec["mult"]
        root.transact(q if spec["custom_q"] > 0 else -q, child=bad)
        root.transact(spec["custom_q"] * 10.0, child="hedge_")
        root.update(idx[0])
        j = min(max(k, 1), len(idx) - 2)  # the date on which the notional is wound down
        for d in idx[1 : j + 1]:
            root.update(d)
        root.value
        root.transact(-root.children[bad].position, child=bad)
        root.update(idx[j])
        if abs(root.notional_value) > 0:
            raise Discard("notional not wound down")
        must_raise(lambda: (root.update(idx[j + 1]), root.value, root.price), "P&L of a hedge on %s in a fixed-income strategy whose notional has been zero since %s (it carried %r before)" % (idx[j + 1], idx[j], q))
        labs.append("wound_down_on_date_%d" % min(j, 3))
        return {"nontrivial": True, "labels": labs}
    data = interp.mk_frame(ds, pr)
    idx = data.index
    if klass in ("zero_base_fi", "nan_coupon_open_position"):
        kind = "CouponPayingSecurity" if klass == "nan_coupon_open_position" else "FixedIncomeSecurity"
        kids = [getattr(bt.core, kind)(t) for t in sorted(pr)]
        root = bt.core.FixedIncomeStrategy("root", children=kids)
        coup = {t: [0.01] * len(ds) for t in pr}
        kw = {}
        rk = spec.get("rate_kind", "coupon") if klass == "nan_coupon_open_position" else None
        if rk == "coupon":
            coup[bad][k] = None
        elif rk in ("cost_long", "cost_short"):
            # the carry of a date is the coupon less the holding cost of the held side: a missing cost is a missing carry
            cost = {t: [0.001] * len(ds) for t in pr}
            cost[bad][k] = None
            kw[rk] = interp.mk_frame(ds, cost)
        root.setup(data, coupons=interp.mk_frame(ds, coup), **kw)
        spath = "root"
    else:
        root, spath = _tree(bt, spec)
        kw = {}
        if (spec["spread"] is not None and klass != "custom_price_no_bidoffer") or klass == "custom_price_nan":
            kw["bidoffer"] = data * (spec["spread"] if spec["spread"] is not None else 0.0)
        if klass == "trade_nan_bidoffer":
            # the spread of one security is missing on one date: a trade in it that date has no price to be booked at
            kw["bidoffer"] = data * (spec["spread"] if spec["spread"] is not None else 0.002)
            kw["bidoffer"].loc[idx[k], bad] = np.nan
        root.setup(data, **kw)
    root.use_integer_positions(bool(spec["integer_positions"]))
    fee = interp.Fee(spec["fee"])
    if spec["fee"]["kind"] != "none":
        root.set_commissions(fee)
    root.adjust(cap)
    root.update(idx[0])
    strat = root
    for part in spath.split(">")[1:]:
        strat = strat.children[part]
    if strat is not root:
        root.allocate(cap * 0.5, child=strat.name)
    root.update(idx[0])  # close the date properly before the clock moves (lazy-update protocol)
    amt = spec["amount"] * cap
    if klass in ("trade_nan_price", "trade_zero_price"):
        for d in idx[1 : k + 1]:
            root.update(d)
        must_raise(lambda: strat.allocate(amt, child=bad), "allocating %r to %s at price %r" % (amt, bad, pr[bad][k]), unchanged_root=root)
        must_raise(lambda: strat.rebalance(0.3, bad), "rebalancing %s to 0.3 at price %r" % (bad, pr[bad][k]), unchanged_root=root)
        return {"nontrivial": True, "labels": labs}
    if klass == "trade_nan_bidoffer":
        for d in idx[1 : k + 1]:
            root.update(d)

        def go_transact():
            strat.transact(abs(amt) / 100.0 + 1.0, child=bad)
            root.update(idx[k])
            root.value

        if spec.get("custom_flat"):
            must_raise(go_transact, "transacting %s on a date its bid/offer spread is missing" % bad)
        else:
            # an amount too small to buy a single unit trades nothing: then there is nothing to refuse
            before = _state(bt, root)
            try:
                strat.allocate(amt, child=bad)
                root.update(idx[k])
            except Exception:
                if {kk: v for kk, v in _state(bt, root).items() if before.get(kk, (0.0,)) != v}:
                    raise Violation("allocating to %s with a missing spread was refused but changed the state" % bad, signature="ill:%s:partial-write" % klass)
            else:
                if {kk: v for kk, v in _state(bt, root).items() if before.get(kk, (0.0,)) != v}:
                    raise Violation("allocating %r to %s on a date its bid/offer spread is missing traded without an error" % (amt, bad), signature="ill:%s:no-error" % klass)
                labs.append("nothing_to_trade")
        return {"nontrivial": True, "labels": labs + (["via_transact"] if spec.get("custom_flat") else ["via_allocate"])}
    if klass == "transact_nan_price":
        # a quantity transacted (not allocated) in a security without a price that day: the error may come from transact itself or from the
        # refresh that follows, but the date must not close with a NaN booked
        for d in idx[1 : k + 1]:
            root.update(d)

        def go():
            strat.transact(abs(amt) / 100.0 + 1.0, child=bad)
            root.update(idx[k])
            root.value

        must_raise(go, "transacting %s at a missing price" % bad)
        return {"nontrivial": True, "labels": labs}
    if klass == "custom_price_no_bidoffer":
        if spec.get("custom_flat"):
            strat._create_child_if_needed(bad) if bad not in strat.children else None
        else:
            strat.allocate(abs(amt), child=bad)
        root.update(idx[0])
        sec = strat.children[bad]
        cpx = pr[bad][0] * spec.get("custom_px", 1.01)
        must_raise(lambda: sec.transact(spec.get("custom_q", 5.0), price=cpx), "custom-price transact (price %r) without bid/offer data" % cpx, unchanged_root=root)
        return {"nontrivial": True, "labels": labs + (["custom_price_zero"] if cpx == 0 else [])}
    if klass == "custom_price_nan":
        # bid/offer tracking is on, so custom prices are allowed - but a missing one is a trade at a missing price
        if spec.get("custom_flat"):
            strat._create_child_if_needed(bad) if bad not in strat.children else None
        else:
            strat.allocate(abs(amt), child=bad)
        root.update(idx[0])
        sec = strat.children[bad]
        must_raise(lambda: (sec.transact(spec.get("custom_q", 5.0), price=float("nan")), root.value), "transact at a custom price of NaN", unchanged_root=root)
        return {"nontrivial": True, "labels": labs}
    if klass == "nan_price_open_position":
        strat.allocate(abs(amt), child=bad)
        root.update(idx[0])
        for d in idx[1:k]:
            root.update(d)
        if strat.children[bad].position == 0:
            raise Discard("no position opened")
        must_raise(lambda: (root.update(idx[k]), root.value), "update to %s with a position in %s whose price is missing" % (idx[k], bad))
        return {"nontrivial": True, "labels": labs}
    if klass == "nan_coupon_open_position":
        labs.append("missing_" + spec.get("rate_kind", "coupon"))
        root.transact(-100.0 if spec.get("rate_kind") == "cost_short" else 100.0, child=bad)
        root.update(idx[0])
        for d in idx[1:k]:
            root.update(d)
        must_raise(lambda: (root.update(idx[k]), root.value), "update to %s with a position in %s whose coupon is missing" % (idx[k], bad))
        return {"nontrivial": True, "labels": labs}
    if klass == "zero_base_mv":
        # withdraw everything as a flow on a date without P&L, then a non-flow gain on the next date has no base to be a return on
        root.allocate(-strat.value, child=strat.name) if strat is not root else None
        root.update(idx[0])
        for d in idx[1:k]:
            root.update(d)
        node = strat
        node.adjust(-node.value, flow=True)
        root.value
        if k < len(idx):
            root.update(idx[k])
        node.adjust(abs(amt), flow=False)
        must_raise(lambda: root.value, "a non-flow gain of %r on a strategy whose value and flows are zero" % abs(amt))
        return {"nontrivial": True, "labels": labs}
    if klass == "zero_base_fi":
        for d in idx[1 : k + 1]:
            root.update(d)
        root.adjust(-root.value, flow=True)
        root.value
        root.adjust(abs(amt), flow=False)
        must_raise(lambda: root.value, "P&L of %r on a fixed-income strategy with zero notional" % abs(amt))
        return {"nontrivial": True, "labels": labs}
    raise ValueError(klass)


def case_builds_agree(ctx, spec):
    """the interpreted and the compiled build of the same sources give the same histories (fresh process each)"""
    from . import c11

    a = c11.run_in_process(spec, "py", 0)
    b = c11.run_in_process(spec, "cy", 0)
    if ("error" in a) != ("error" in b):
        raise Violation("interpreted and compiled builds disagree: %s vs %s" % (a.get("error", "runs"), b.get("error", "runs")), signature="builds:error")
    if "error" in a:
        raise Discard("raises in both builds (wellformed sub's business)")
    d = c11.first_diff(a["history"], b["history"])
    if d:
        # compiled code keeps typed locals in C doubles; allow the last bits
        for k in a["history"]:
            for f, x in a["history"][k].items():
                y = b["history"].get(k, {}).get(f)
                if y is None or len(x) != len(y):
                    raise Violation("interpreted vs compiled build: %s" % d, signature="builds:shape")
                for u, v in zip(x, y):
                    if (u is None) != (v is None) or (u is not None and abs(u - v) > 1e-9 * max(1.0, abs(u), abs(v))):
                        raise Violation("interpreted vs compiled build: %s.%s differs: %r vs %r" % (k, f, u, v), signature="builds:value")
    return {"nontrivial": True, "labels": gen.spec_labels(spec) + (["bit_identical"] if not d else ["last_bits_differ"])}


SUBS = {"wellformed": case_wellformed, "illformed": case_illformed, "builds_agree": case_builds_agree, "report_order": case_report_order}
STRATS = {"wellformed": gen.backtest_spec, "illformed": ill_spec, "builds_agree": lambda: gen.backtest_spec(max_dates=10), "report_order": report_order_spec}
for _k in ILL:
    STRATS["ill_" + _k] = (lambda kk: (lambda: ill_spec(klass=kk)))(_k)
    SUBS["ill_" + _k] = case_illformed


def shard(ctx):
    run_sub(ctx, "wellformed", gen.backtest_spec(), lambda s: case_wellformed(ctx, s), ctx.n(3000, 40000))
    run_sub(ctx, "report_order", report_order_spec(), lambda s: case_report_order(ctx, s), ctx.n(1200, 16000))
    for k in ILL:
        run_sub(ctx, "ill_" + k, ill_spec(klass=k), lambda s: case_illformed(ctx, s), ctx.n(160, 3000))
    if ctx.kind == "py":
        from .. import build

        build.ensure_build("cy")
        run_sub(ctx, "builds_agree", gen.backtest_spec(max_dates=10), lambda s: case_builds_agree(ctx, s), ctx.n(16, 320))
