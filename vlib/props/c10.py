"""C10 Well-formed runs complete with finite results; ill-formed states raise."""
import contextlib
import io
import math

import numpy as np
from hypothesis import strategies as st

from .. import gen, interp
from ..harness import Discard, Violation, bt_frame_signature, run_sub

RULE = (
    "wellformed: grammar-generated backtests (dates x prices x tree x algo stack x cost model x position mode) run to completion, "
    "then every report accessor is called and every recorded number must be finite; non-trivial = at least one trade happened. "
    "illformed_*: one generated family per ill-formed class of the statement; must raise (and where the statement implies refusal, leave state unchanged); "
    "non-trivial = the ill-formed state was actually reached. distinct = distinct spec hashes."
)
ASSUMPTIONS = [
    "only the installed pandas/numpy/ffn versions are exercised",
    "third-party optimiser non-convergence (ffn ERC / mean-variance) on generated windows is discarded, not judged",
]
BUILDS = {"quick": ["py"], "thorough": ["py", "cy"]}

DEP_DISCARD = ("No solution found after", "Inequality constraints incompatible", "Positive directional derivative", "Singular matrix", "Iteration limit")


def _finite_series(name, s, allow_nan_mask=None):
    arr = np.asarray(s, dtype=float)
    bad = ~np.isfinite(arr)
    if allow_nan_mask is not None:
        bad = bad & ~(np.isnan(arr) & allow_nan_mask)
    if bad.any():
        raise Violation("non-finite value recorded in %s at row %d: %r" % (name, int(np.argmax(bad)), arr[bad][0]), signature="nonfinite:" + name.split("[")[0])


def run_backtest(bt, spec):
    interp.seed_rngs(spec)
    b = interp.mk_backtest(bt, spec)
    with contextlib.redirect_stdout(io.StringIO()):
        b.run()
    return b


def check_finite(bt, b, spec):
    s = b.strategy
    data = b.data
    for m in s.members:
        isstrat = isinstance(m, bt.core.StrategyBase)
        for nm in ["values", "notional_values"] + (["prices", "cash", "fees", "flows"] if isstrat else ["positions", "outlays"]):
            _finite_series("%s.%s" % (m.full_name, nm), getattr(m, nm))
        if not isstrat:
            pr = m.prices
            if m.name in data.columns:
                mask = np.isnan(np.asarray(data[m.name].loc[: s.now], dtype=float))
            else:
                mask = np.ones(len(pr), dtype=bool)
            _finite_series("%s.prices" % m.full_name, pr, mask)
            if m._bidoffer_set:
                _finite_series("%s.bidoffers_paid" % m.full_name, m.bidoffers_paid)


def reports(bt, b, spec):
    """call every report accessor; values finite where defined"""
    s = b.strategy
    w = b.weights
    sw = b.security_weights
    b.positions
    b.herfindahl_index
    b.turnover
    res = bt.backtest.Result(b)
    res.get_weights()
    res.get_security_weights()
    if s.securities:
        res.get_transactions()
    buf = io.StringIO()
    with contextlib.redirect_stdout(buf):
        res.display()
    res.prices
    res.stats
    vals = np.asarray(s.values, dtype=float)
    ok_rows = np.abs(vals) > 1e-9
    for nm, df in (("weights", w), ("security_weights", sw)):
        arr = np.asarray(df, dtype=float)
        if arr.size:
            sub = arr[ok_rows[: arr.shape[0]]]
            if not np.isfinite(sub).all():
                raise Violation("report %s has non-finite entries on dates with non-zero value" % nm, signature="nonfinite-report:" + nm)
    return res


def n_trades(bt, b):
    n = 0
    for m in b.strategy.members:
        if isinstance(m, bt.core.SecurityBase):
            n += int((np.asarray(m.outlays, dtype=float) != 0).sum())
    return n


def case_wellformed(ctx, spec):
    bt = ctx.bt
    try:
        b = run_backtest(bt, spec)
        check_finite(bt, b, spec)
        reports(bt, b, spec)
    except Violation:
        raise
    except Exception as e:
        msg = str(e)
        if any(k in msg for k in DEP_DISCARD):
            raise Discard("dependency did not converge")
        sig = bt_frame_signature(e)
        raise Violation("well-formed backtest raised %s: %s" % (type(e).__name__, msg[:300]), signature=sig)
    nt = n_trades(bt, b)
    labs = gen.spec_labels(spec)
    if b.strategy.bankrupt:
        labs.append("bankrupt")
    return {"nontrivial": nt > 0, "labels": labs}


SUBS = {"wellformed": case_wellformed}


def shard(ctx):
    run_sub(ctx, "wellformed", gen.backtest_spec(), lambda s: case_wellformed(ctx, s), ctx.n(1500, 30000))
