"""C05 Allocating cash to a security respects the budget, costs included."""
import math
import os

import numpy as np
import pandas as pd
from hypothesis import strategies as st

from .. import interp
from ..harness import Discard, Violation, run_sub

RULE = (
    "Direct SecurityBase.allocate(amount) calls on a one-security tree: generated price (1e-2..1e5, round and irrational), multiplier, "
    "existing position (flat/long/short), amount of either sign (tiny..huge relative to one unit, exact specials: 0, -value, one-unit cost +-eps), "
    "spread, commission spec in the stated domain (non-decreasing, one-unit cost+half-spread < 0.9 x unit price), integer or fractional mode; "
    "oracle = independent cost function + bisection for the maximal whole quantity. allocate_nested: the same with the security under a sub-strategy that has a commission schedule of its own "
    "(set on it alone, or after a different schedule was pushed from the top): sizing and charging use the schedule of the security's own parent. refuse: allocate at a missing or zero price raises and changes nothing - on a fresh security, on one quoted the date before, and on one held and closed the date before. non-trivial = a trade happened with a non-zero fee or spread; "
    "distinct = distinct spec hashes."
)
ASSUMPTIONS = ["cost(0) = 0 (no trade, no fee)", "fractional equality tolerance 2e-8 + 1e-9|amount| (+1e-12 relative on the cost terms)"]

D0, D1 = pd.Timestamp("2020-01-01"), pd.Timestamp("2020-01-02")


def setup(bt, spec):
    m = spec["mult"]
    sec = bt.core.Security("x", multiplier=m)
    p = spec["price"]
    data = pd.DataFrame({"x": [np.nan if p is None else float(p)] * 2}, index=[D0, D1])
    if spec.get("price0") is not None:
        # quoted on the first date, the price under test (missing or zero) only on the second
        data.loc[D0, "x"] = float(spec["price0"])
    kw = {}
    if spec.get("spread") is not None:
        kw["bidoffer"] = pd.DataFrame({"x": [float(spec["spread"])] * 2}, index=[D0, D1])
    if spec.get("under"):
        # the security's parent is a sub-strategy with a commission schedule of its own (set on it directly, or before / after a different
        # one is pushed from the top of the tree): a trade is sized and charged with the schedule of the security's own parent
        u = spec["under"]
        if u["order"] == "dynamic":
            # the sleeve is opened inside a live tree (pairs-trading pattern) and brings its own spread table, which overrides the parent's
            r = bt.core.StrategyBase("r", [])
            rkw = dict(kw)
            if "bidoffer" in kw:
                rkw["bidoffer"] = kw["bidoffer"] * u.get("root_spread_x", 0.0)
            r.setup(data, **rkw)
            r.use_integer_positions(bool(spec["integer"]))
            fee = interp.Fee(spec.get("fee"))
            r.set_commissions(fee)
            cap = _capital(spec)
            r.adjust(3.0 * cap)
            r.update(D0)
            s = bt.core.StrategyBase("p", [sec], parent=r)
            s.setup_from_parent(**kw)
            sec = s["x"]
            r.update(D0)
            r.allocate(cap, "p")
            r.update(D0)
            return s, sec, fee
        r = bt.core.StrategyBase("r", [bt.core.StrategyBase("p", [sec])])
        s = r["p"]
        sec = s["x"]
        r.setup(data, **kw)
        r.use_integer_positions(bool(spec["integer"]))
        fee = interp.Fee(spec.get("fee"))
        rootfee = interp.Fee(u.get("root_fee"))
        if u["order"] == "sub_only":
            s.set_commissions(fee)
        else:
            r.set_commissions(rootfee)
            s.set_commissions(fee)
        cap = _capital(spec)
        r.adjust(3.0 * cap)
        r.update(D0)
        r.allocate(cap, "p")
        r.update(D0)
        return s, sec, fee
    s = bt.core.StrategyBase("p", [sec])
    sec = s["x"]
    s.setup(data, **kw)
    s.use_integer_positions(bool(spec["integer"]))
    fee = interp.Fee(spec.get("fee"))
    s.set_commissions(fee)
    s.adjust(_capital(spec))
    s.update(D0)
    return s, sec, fee


def _capital(spec):
    """enough cash that the root never goes bankrupt, same order of magnitude as the trade"""
    if spec.get("price") is None:
        return 1e6
    unit = spec["price"] * spec["mult"]
    a = spec["amount"]
    if isinstance(a, (int, float)):
        est = abs(a)
    elif a[0] in ("units", "cost", "decimal_units"):
        est = abs(a[1]) * unit * 2
    else:
        est = 0.0
    return 4.0 * (est + 3.0 * abs(spec["pos0"]) * unit + 10.0 * unit) + 1000.0


def cost_fn(spec, fee):
    p, m = spec["price"], spec["mult"]
    s = spec.get("spread") or 0.0

    def cost(q):
        if q == 0:
            return 0.0
        return q * p * m + abs(q) * 0.5 * s * m + fee.value(q, p * m)

    return cost


def best_integer_q(cost, amount, unit):
    """max{q in Z: cost(q) <= amount}; cost strictly increasing in q (stated fee domain)"""
    lo = math.floor(amount / unit) - 2
    step = 1
    while cost(lo) > amount:
        lo -= step
        step *= 2
        if step > 2**60:
            raise Discard("no feasible quantity")
    hi = lo + 1
    step = 1
    while cost(hi) <= amount:
        hi += step
        step *= 2
        if step > 2**60:
            raise Discard("unbounded")
    # cost(lo) <= amount < cost(hi)
    while hi - lo > 1:
        mid = (lo + hi) // 2
        if cost(mid) <= amount:
            lo = mid
        else:
            hi = mid
    return lo


def classify(spec, pos0, amount):
    return "%s/pos%s/amt%s" % ("int" if spec["integer"] else "frac", "+" if pos0 > 0 else ("-" if pos0 < 0 else "0"), "+" if amount > 0 else ("-" if amount < 0 else "0"))


def resolve_amount(spec, sec, cost):
    a = spec["amount"]
    if isinstance(a, (int, float)):
        return float(a)
    kind = a[0]
    unit = spec["price"] * spec["mult"]
    if kind == "units":  # multiple of the clean unit price
        return a[1] * unit
    if kind == "decimal_units":  # the cost of n units as a person would write it down (decimal arithmetic), e.g. 100 x 12.93 x 10 = 12930.0
        from decimal import Decimal

        return float(Decimal(str(spec["price"])) * Decimal(str(spec["mult"])) * Decimal(a[1]))
    if kind == "close":  # exactly minus current value
        return -sec.value
    if kind == "cost":  # exactly the cost of n units, plus eps
        return cost(a[1]) + a[2]
    if kind == "value_frac":
        return -sec.value * a[1]
    if kind == "near_close":  # minus the current value, off by a sliver of one unit: not a close-out, the cost still equals the amount
        return -sec.value + a[1] * unit
    raise ValueError(kind)


def case_allocate(ctx, spec):
    bt = ctx.bt
    s, sec, fee = setup(bt, spec)
    pos0 = spec["pos0"]
    if pos0 != 0:
        sec.transact(pos0)
        s.update(D0)
    cost = cost_fn(spec, fee)
    p, m = spec["price"], spec["mult"]
    amount = resolve_amount(spec, sec, cost)
    if not math.isfinite(amount):
        raise Discard("nonfinite amount")
    if fee.spec["kind"] == "side_fixed" and not spec["integer"] and fee.spec["fb"] != fee.spec["fs"] and 0 < amount <= fee.spec["fb"] * (1 + 1e-9) + 2e-8:
        # purchases cost more than the amount, sales less than nothing: no quantity costs exactly the amount, the fractional clause has no witness
        raise Discard("amount inside the gap between the two ticket charges")
    cap0 = s.capital
    posb = sec.position
    val0 = sec.value
    cls = classify(spec, posb, amount)
    trades = []
    orig_transact = sec.transact

    def spy(q, *a, **k):
        trades.append(float(q))
        return orig_transact(q, *a, **k)

    sec.transact = spy
    try:
        sec.allocate(amount)
        s.update(D0)
    except Exception as e:
        raise Violation("allocate(%r) raised %s: %s [%s]" % (amount, type(e).__name__, str(e)[:120], cls), signature="raises:%s:%s" % (cls, str(e)[:40]))
    if s.root.bankrupt:
        raise Discard("harness capital too small")
    trades = [t for t in trades if abs(t) >= 1e-16]  # transact ignores quantities below bt's zero tolerance
    q = sum(trades)  # exact executed quantity (position difference loses bits on large positions)
    if len(trades) > 1:
        raise Violation("allocate executed %d trades" % len(trades), signature="multi-trade")
    if abs((sec.position - posb) - q) > 1e-9 * max(1.0, abs(posb), abs(q)):
        raise Violation("position moved by %r but executed quantity is %r" % (sec.position - posb, q), signature="pos!=q")
    dcap = s.capital - cap0
    unit = p * m
    scale = max(abs(amount), abs(q) * unit, unit)
    tol = 2e-8 + 1e-9 * abs(amount) + 1e-12 * scale
    c = cost(q)
    labels = [cls] + (["side_dependent_fee"] if fee.spec["kind"] in ("sell_levy", "buy_duty", "side_fixed") else [])
    # cash moves by exactly the cost of the executed quantity
    if abs(-dcap - c) > 1e-9 * max(abs(c), abs(cap0), 1.0) + 1e-9:
        raise Violation("parent cash moved by %r but cost(q=%r) is %r [%s]" % (-dcap, q, c, cls), signature="cash!=cost:" + cls)
    if amount == 0 or abs(amount) < 1e-16:
        if q != 0:
            raise Violation("zero amount traded q=%r" % q, signature="zero-amount-trades")
        return {"nontrivial": False, "labels": labels + ["zero"]}
    closing = val0 != 0 and abs(amount + val0) < 1e-16
    if closing:
        if sec.position != 0:
            raise Violation("allocate(-value) left position %r [%s]" % (sec.position, cls), signature="close-incomplete:" + cls)
        return {"nontrivial": fee.spec["kind"] != "none" or bool(spec.get("spread")), "labels": labels + ["close"]}
    # budget
    if c > amount + tol:
        raise Violation("budget exceeded: amount=%r cost(q=%r)=%r over by %r [%s]" % (amount, q, c, c - amount, cls), signature="over-budget:" + cls)
    if spec["integer"]:
        if q != math.floor(q):
            raise Violation("non-integral quantity %r in integer mode [%s]" % (q, cls), signature="non-integer:" + cls)
        # maximal: one more unit would not fit (beyond 2**52 'one more unit' is not representable, any float is whole)
        # (no slack: the harness evaluates the cost with the same expression bt's own fit test uses, so a quantity whose cost is at most
        # the amount here is one bt must accept - an amount worth exactly k units buys k units)
        if abs(q) < 2.0**52 and cost(q + 1) <= amount:
            qb = best_integer_q(cost, amount, unit)
            raise Violation("not the largest quantity: traded q=%r (cost %r) but q=%r fits amount=%r (cost %r) [%s]" % (q, c, qb, amount, cost(qb), cls), signature="not-maximal:" + cls)
    else:
        if abs(c - amount) > tol:
            f0 = fee.value(0.0, unit) if fee.spec["kind"] in ("fixed", "fixed+prop", "max", "side_fixed") else 0.0
            if q == 0 and 0 < amount <= f0 + tol:
                labels.append("amount<=fixed-fee")
            else:
                raise Violation("fractional cost differs from amount: amount=%r cost(q=%r)=%r diff=%r [%s]" % (amount, q, c, c - amount, cls), signature="frac-mismatch:" + cls)
    nt = q != 0 and (fee.spec["kind"] != "none" or bool(spec.get("spread")))
    if q == 0:
        labels.append("notrade")
    return {"nontrivial": nt, "labels": labels}


def case_refuse(ctx, spec):
    """trade at a missing or zero price is refused with an error and changes nothing"""
    bt = ctx.bt
    s, sec, fee = setup(bt, spec)
    now = D0
    hist = "fresh"
    if spec.get("price0") is not None:
        # the security was quoted (and possibly held and closed again) on the date before: what it knew then must not stand in for today's quote
        hist = "quoted_before"
        if spec.get("round_trip"):
            hist = "held_and_closed_before"
            sec.transact(spec["round_trip"])
            s.update(D0)
            sec.transact(-spec["round_trip"])
            s.update(D0)
        s.update(D1)
        now = D1
    cap0 = s.capital
    amount = spec["amount"]
    try:
        sec.allocate(amount)
    except Exception:
        s.update(now)
        if sec.position != 0 or s.capital != cap0:
            raise Violation("refused allocate still changed state: pos=%r dcap=%r" % (sec.position, s.capital - cap0), signature="refuse-partial")
        return {"nontrivial": True, "labels": ["refused:" + ("nan" if spec["price"] is None else "zero"), hist]}
    raise Violation("allocate(%r) at price %r (%s) did not raise (position now %r)" % (amount, spec["price"], hist, sec.position), signature="no-refusal")


# --------------------------------------------------------------------------- generators
PRICES = st.one_of(
    st.sampled_from([0.01, 0.37, 1.0, 2.5, 9.99, 10.0, 100.0, 101.3, 91.40246706608193, 1234.5, 99999.0]),
    st.floats(0.01, 1e5, allow_nan=False, allow_infinity=False),
    st.integers(1, 99999).map(lambda c: c / 100.0),  # prices in cents: price x multiplier need not be the nearest float to the decimal product
)


@st.composite
def fee_in_domain(draw, unit, half_spread_unit):
    """one-unit commission + half spread < 0.9 * unit price; non-decreasing in |q|"""
    room = 0.9 * unit - half_spread_unit
    k = draw(st.sampled_from(["none", "fixed", "unit", "prop", "fixed+prop", "max", "sell_levy", "buy_duty", "side_fixed"]))
    if k == "none" or room <= 0:
        return {"kind": "none"}
    frac = draw(st.sampled_from([1e-4, 1e-3, 0.01, 0.1, 0.5]))
    if k == "fixed":
        return {"kind": k, "f": room * frac}
    if k == "unit":
        return {"kind": k, "k": room * frac}
    if k == "prop":
        return {"kind": k, "r": min(0.5, room * frac / unit)}
    if k == "fixed+prop":
        return {"kind": k, "f": room * frac / 2, "r": min(0.25, room * frac / 2 / unit)}
    if k in ("sell_levy", "buy_duty"):
        return {"kind": k, "r": min(0.5, room * frac / unit)}
    if k == "side_fixed":
        return {"kind": k, "fb": room * frac, "fs": room * frac * draw(st.sampled_from([0.0, 0.1, 3.0])) if frac <= 0.1 else 0.0}
    return {"kind": "max", "f": room * frac, "k": room * frac * draw(st.sampled_from([0.01, 0.1, 1.0]))}


@st.composite
def alloc_spec(draw):
    price = draw(PRICES)
    mult = draw(st.sampled_from([1, 1, 1, 10, 0.1, 100]))
    unit = price * mult
    integer = draw(st.booleans())
    sp = draw(st.sampled_from([None, None, 0.0, 1e-4, 1e-3, 0.01, 0.1]))
    spread = None if sp is None else price * sp
    fee = draw(fee_in_domain(unit, 0.0 if spread is None else 0.5 * spread * mult))
    pk = draw(st.sampled_from(["flat", "long", "short"]))
    if pk == "flat":
        pos0 = 0
    else:
        mag = draw(st.sampled_from([1, 2, 7, 100, 12345, 10**6]))
        if not integer and draw(st.booleans()):
            mag = mag + draw(st.floats(0.01, 0.99))
        pos0 = mag if pk == "long" else -mag
    ak = draw(st.sampled_from(["units", "units", "units", "float", "close", "cost", "value_frac", "zero", "tiny", "huge", "decimal_units", "decimal_units", "near_close"]))
    sign = draw(st.sampled_from([1, -1]))
    if ak == "units":
        n = draw(st.one_of(st.integers(0, 50), st.floats(0.0, 3.0), st.floats(0.0, 1e4), st.sampled_from([0.5, 0.999, 1.0, 1.001, 1.5, 2.0, 10.0, 1e3])))
        amount = ["units", sign * n]
    elif ak == "near_close":
        amount = ["near_close", sign * draw(st.sampled_from([1e-7, 5e-7, 1e-8, 1e-6, 1e-4, 0.01]))] if pos0 != 0 else ["units", sign * 1.5]
    elif ak == "decimal_units":
        amount = ["decimal_units", sign * draw(st.one_of(st.integers(1, 200), st.sampled_from([100, 1000, 10, 50, 250])))]
    elif ak == "float":
        amount = sign * draw(st.floats(1e-3, 1e7, allow_nan=False))
    elif ak == "close":
        amount = ["close"] if pos0 != 0 else ["units", sign * 3.5]
    elif ak == "cost":
        n = sign * draw(st.integers(1, 1000))
        amount = ["cost", n, draw(st.sampled_from([0.0, 1e-9, -1e-9, 1e-3, -1e-3, 0.5 * unit, -0.5 * unit]))]
    elif ak == "value_frac":
        amount = ["value_frac", draw(st.sampled_from([0.5, 0.999999, 1.000001, 2.0, 0.1]))] if pos0 != 0 else ["units", sign * 0.5]
    elif ak == "zero":
        amount = 0.0
    elif ak == "tiny":
        amount = sign * unit * draw(st.sampled_from([1e-9, 1e-6, 1e-3, 0.01]))
    else:
        amount = sign * draw(st.sampled_from([1e8, 4.5e8, 1e9, 3.3e10, 1e14, 1e16, 3e17]))  # up to quantities beyond 2**53, where whole numbers are sparser than one unit
    return {"price": price, "mult": mult, "integer": integer, "spread": spread, "fee": fee, "pos0": pos0, "amount": amount}


@st.composite
def nested_alloc_spec(draw):
    spec = draw(alloc_spec())
    unit = spec["price"] * spec["mult"]
    order = draw(st.sampled_from(["sub_only", "root_then_sub"]))
    root_fee = {"kind": "none"} if order == "sub_only" else draw(st.sampled_from([{"kind": "none"}, {"kind": "prop", "r": 1e-4}, {"kind": "fixed", "f": 0.5 * unit}, {"kind": "unit", "k": 0.3 * unit}]))
    spec["under"] = {"order": order, "root_fee": root_fee}
    if spec["spread"] is not None and draw(st.integers(0, 3)) == 0:
        spec["under"] = {"order": "dynamic", "root_spread_x": draw(st.sampled_from([0.0, 3.0, 0.25]))}
    return spec


@st.composite
def refuse_spec(draw):
    return {
        "price": draw(st.sampled_from([None, 0.0])),
        "mult": draw(st.sampled_from([1, 10])),
        "integer": draw(st.booleans()),
        "spread": draw(st.sampled_from([None, 0.01])),
        "fee": {"kind": draw(st.sampled_from(["none", "fixed"])), "f": 1.0},
        "pos0": 0,
        "amount": draw(st.sampled_from([1.0, -1.0, 1000.0, -250.5, 1e-3])) * draw(st.sampled_from([1, 1, 100])),
        "price0": draw(st.sampled_from([None, 10.0, 101.3])),
        "round_trip": draw(st.sampled_from([None, 5.0, -3.0])),
    }


def fuzz_campaign(ctx, runs):
    """Supplementary engine (thorough tier): a coverage-guided libFuzzer campaign (atheris) over byte strings decoded into the same specs,
    judged by the same case function (fuzz/c05_atheris.py).  One process per shard, seeded from VERIF_SEED and the shard number; a
    failing input is written out as an ordinary replay spec.  If atheris cannot be made available offline the campaign is skipped and
    the evidence says so - the deciding engine is the Hypothesis search above."""
    import fcntl
    import json
    import os
    import shutil
    import subprocess
    import sys
    import tempfile

    from ..harness import VERIF

    deps = os.path.join(VERIF, ".deps")
    env = dict(os.environ)
    env["PYTHONPATH"] = deps + os.pathsep + env.get("PYTHONPATH", "")
    os.makedirs(deps, exist_ok=True)
    with open(os.path.join(deps, ".lock"), "w") as lock:
        fcntl.flock(lock, fcntl.LOCK_EX)
        ok = subprocess.run([sys.executable, "-c", "import atheris"], env=env, capture_output=True).returncode == 0
        if not ok:
            subprocess.run([sys.executable, "-m", "pip", "install", "-q", "--no-index", "--find-links", "/opt/veriftools/wheels", "--target", deps, "atheris"], capture_output=True)
            ok = subprocess.run([sys.executable, "-c", "import atheris"], env=env, capture_output=True).returncode == 0
        fcntl.flock(lock, fcntl.LOCK_UN)
    st = ctx.stats
    if not ok:
        st.labels["fuzz:atheris_unavailable"] += 1
        return
    tmp = tempfile.mkdtemp(prefix="c05fuzz_")
    try:
        out = os.path.join(tmp, "stats.json")
        seed = (ctx.seed * 1000 + ctx.shard) % (2**31 - 1) + 1
        subprocess.run([sys.executable, os.path.join(VERIF, "fuzz", "c05_atheris.py"), out, str(runs), str(seed)], env=env, cwd=VERIF, capture_output=True, timeout=6 * 3600)
        if not os.path.exists(out):
            st.labels["fuzz:no_output"] += 1
            return
        with open(out) as fh:
            r = json.load(fh)
    finally:
        shutil.rmtree(tmp, ignore_errors=True)
    st.evaluations += r["runs"]
    st.per_sub["fuzz_allocate"] += r["runs"]
    st.nontrivial.update(r["nontrivial"])
    st.discards["fuzz_allocate:discarded"] += r["discards"]
    for k, v in r["labels"].items():
        st.labels["fuzz_allocate:" + k] += v
    if r.get("sample") is not None and len(st.nt_samples) < 4:
        st.nt_samples.append({"sub": "fuzz_allocate", "case": r["sample"]})
    if r.get("failure"):
        f = r["failure"]
        st.failures.append({"sub": "allocate", "message": "[coverage-guided campaign] " + f["message"], "signature": f["signature"], "spec": f["spec"]})


SUBS = {"allocate": case_allocate, "refuse": case_refuse, "allocate_nested": case_allocate}


def shard(ctx):
    run_sub(ctx, "allocate", alloc_spec(), lambda s: case_allocate(ctx, s), ctx.n(40000, 1500000))
    run_sub(ctx, "refuse", refuse_spec(), lambda s: case_refuse(ctx, s), ctx.n(800, 8000))
    run_sub(ctx, "allocate_nested", nested_alloc_spec(), lambda s: case_allocate(ctx, s), ctx.n(6000, 150000))
    if ctx.tier == "thorough" and ctx.kind == "py" or os.environ.get("VERIF_C05_FUZZ"):
        fuzz_campaign(ctx, int(os.environ.get("VERIF_C05_FUZZ_RUNS", "100000")))

STRATS = {"allocate": alloc_spec, "refuse": refuse_spec, "allocate_nested": nested_alloc_spec}
