"""C19 Tree wiring and universe scoping are consistent; lazy children are transparent."""
import copy

import numpy as np
from hypothesis import strategies as st

from .. import gen, interp
from ..harness import Discard, Violation, run_sub
from . import c10

RULE = (
    "construct: generated construction programs (children as lists, dicts with renaming, strings, pre-constructed securities with lazy_add on/off, nested strategies, nodes attached "
    "later with parent=; duplicate sibling names as the negative class): parent/root/members/full_name must agree with the described structure, duplicates must raise ValueError, "
    "use_integer_positions and set_commissions must reach every descendant; a second tree built from the very same child objects / dict is wired to itself, shares no node with the first, and the caller's objects stay detached under their own names. universe: generated backtests over generated trees with a probe algo in every strategy: the universe's "
    "columns are exactly the declared tickers present in the data (all tickers when none declared) plus one column per sub-strategy whose values equal that child's price index; "
    "settings pushed from the top reach children created lazily mid-run. lazy_vs_eager: the same backtest with children named by strings vs pre-constructed Security objects gives equal "
    "histories (1e-9). non-trivial = depth >= 2 or a renamed/late-attached child (construct); a scoped universe with a sub-strategy column (universe); at least two trades (lazy_vs_eager). "
    "distinct = distinct spec hashes."
)
ASSUMPTIONS = ["lazy/eager equivalence is compared per node name with 1e-9 relative tolerance (child order, hence float summation order, may differ)"]


# ---- construction programs -----------------------------------------------------------------------
@st.composite
def node_prog(draw, depth, names):
    """returns a nested description; names is a mutable counter for unique names"""
    nkids = draw(st.integers(0, 3 if depth < 2 else 2))
    kids = []
    for _ in range(nkids):
        kind = draw(st.sampled_from(["str", "str", "sec", "sec_lazy", "strat"] if depth < 2 else ["str", "sec", "sec_lazy"]))
        names[0] += 1
        nm = "n%d" % names[0]
        if kind == "strat":
            kids.append({"kind": "strat", "name": nm, "node": draw(node_prog(depth + 1, names)), "attach": draw(st.sampled_from(["ctor", "ctor", "parent_arg"])), "cls": draw(st.sampled_from(["Strategy", "StrategyBase"]))})
        else:
            kids.append({"kind": kind, "name": nm, "mult": draw(st.sampled_from([1, 1, 10])), "attach": draw(st.sampled_from(["ctor", "ctor", "parent_arg"])) if kind == "sec" else "ctor"})
    mode = draw(st.sampled_from(["list", "list", "dict"]))
    rename = {}
    if mode == "dict":
        for k in kids:
            if draw(st.booleans()):
                names[0] += 1
                rename[k["name"]] = "r%d" % names[0]
    dup = None
    return {"children": kids, "mode": mode, "rename": rename}


@st.composite
def construct_spec(draw):
    names = [0]
    prog = draw(node_prog(0, names))
    spec = {"prog": prog, "integer": draw(st.booleans()), "dup": draw(st.integers(0, 5)) == 0, "flips": draw(st.lists(st.booleans(), min_size=1, max_size=6))}
    return spec


def build_prog(bt, name, prog, cls="Strategy", parent=None, dup=False, twin=None):
    """returns (node, expected structure dict name -> (kind, sub-structure)); with twin (a dict) a second node is constructed from the
    very same child objects / dict, the way a user builds two portfolios from one set of definitions"""
    ctor_children = []
    later = []
    expected = {}
    for k in prog["children"]:
        final = prog["rename"].get(k["name"], k["name"]) if prog["mode"] == "dict" else k["name"]
        if k["kind"] == "str":
            obj = k["name"]
            expected[final] = ("lazy", None)
        elif k["kind"] in ("sec", "sec_lazy"):
            obj = bt.core.Security(k["name"], multiplier=k["mult"], lazy_add=(k["kind"] == "sec_lazy"))
            expected[final if k["attach"] == "ctor" else k["name"]] = ("lazy" if k["kind"] == "sec_lazy" else "sec", k["mult"])
        else:
            if k["attach"] == "ctor":
                obj, sub = build_prog(bt, k["name"], k["node"], k["cls"])
                expected[final] = ("strat", sub)
            else:
                obj = None
        if k["attach"] == "ctor":
            if not isinstance(obj, str) and int(k["name"][1:]) % 2 == 0:
                # every other pre-built child is looked at (printed, its members listed) before it is handed to its parent - the usual thing
                # to do with a freshly built sub-tree; what was seen then must not stick to the copies wired into the bigger tree
                repr(obj)
                for m_ in obj.members:
                    m_.full_name
                    repr(m_)
            ctor_children.append((final, obj))
        else:
            later.append(k)
    if dup and ctor_children:
        # negative class: a second child with an already used name
        nm, obj = ctor_children[0]
        ctor_children.append((nm, copy.deepcopy(obj) if not isinstance(obj, str) else obj))
    if prog["mode"] == "dict" and not dup:
        children = {nm: obj for nm, obj in ctor_children}
    else:
        children = [obj for nm, obj in ctor_children]
        if prog["mode"] == "dict":
            # renaming only exists for dicts; with a duplicate we fall back to a list, names are the objects' own
            expected = {}
            for (nm, obj), k in zip(ctor_children, prog["children"]):
                pass
    kw = {"children": children if children else None}
    if parent is not None:
        kw["parent"] = parent
    if cls == "Strategy":
        node = bt.core.Strategy(name, [], **kw)
    else:
        node = bt.core.StrategyBase(name, **kw)
    if twin is not None:
        twin["objs"] = [(nm, obj, k["name"]) for (nm, obj), k in zip(ctor_children, [k for k in prog["children"] if k["attach"] == "ctor"]) if not isinstance(obj, str)]
        twin["expected"] = {nm: v for nm, v in expected.items() if nm not in {k["name"] for k in later}}
        twin["node"] = bt.core.Strategy(name, [], **kw) if cls == "Strategy" else bt.core.StrategyBase(name, **kw)
    for k in later:
        if k["kind"] == "sec":
            sec = bt.core.Security(k["name"], multiplier=k["mult"])
            # SecurityBase has no parent argument: attach the way Node does
            node._add_children([sec], dc=False)
        else:
            sub_node, sub = build_prog(bt, k["name"], k["node"], k["cls"], parent=node)
            expected[k["name"]] = ("strat", sub)
    return node, expected


def check_structure(bt, node, expected, root, path, flag):
    if node.root is not root:
        raise Violation("%s.root is %r, not the tree's root" % (">".join(path), node.root), signature="c19:root")
    if node.full_name != ">".join(path):
        raise Violation("full_name %r != %r" % (node.full_name, ">".join(path)), signature="c19:full_name")
    if node.integer_positions != flag:
        raise Violation("integer_positions flag did not reach %s" % node.full_name, signature="c19:integer-flag")
    if isinstance(node, bt.core.SecurityBase):
        return [node]
    exp_real = {k: v for k, v in expected.items() if v[0] != "lazy"}
    exp_lazy = {k for k, v in expected.items() if v[0] == "lazy"}
    if set(node.children) != set(exp_real):
        raise Violation("%s children %s != described %s" % (node.full_name, sorted(node.children), sorted(exp_real)), signature="c19:children")
    if set(node._lazy_children) != exp_lazy:
        raise Violation("%s lazy children %s != described %s" % (node.full_name, sorted(node._lazy_children), sorted(exp_lazy)), signature="c19:lazy")
    members = [node]
    for nm, c in node.children.items():
        if c.name != nm:
            raise Violation("child registered as %r is named %r" % (nm, c.name), signature="c19:name")
        if c.parent is not node:
            raise Violation("%s.parent is not %s" % (c.full_name, node.full_name), signature="c19:parent")
        kind, sub = exp_real[nm]
        if kind == "sec":
            if not isinstance(c, bt.core.SecurityBase) or c.multiplier != sub:
                raise Violation("%s should be a security with multiplier %s" % (c.full_name, sub), signature="c19:sec")
            members += check_structure(bt, c, None, root, path + [nm], flag)
        else:
            members += check_structure(bt, c, sub, root, path + [nm], flag)
    got = node.members
    if len(got) != len(members) or set(map(id, got)) != set(map(id, members)):
        raise Violation("%s.members %s != nodes of its subtree %s" % (node.full_name, [m.full_name for m in got], [m.full_name for m in members]), signature="c19:members")
    return members


def case_construct(ctx, spec):
    bt = ctx.bt
    prog = spec["prog"]
    has_named = any(True for _ in prog["children"])
    if spec["dup"] and any(k["attach"] == "ctor" for k in prog["children"]):
        try:
            node, _ = build_prog(bt, "root", prog, dup=True)
        except ValueError:
            return {"nontrivial": True, "labels": ["duplicate:refused"]}
        # accepted (two lazily-added securities of one name collapse into one): sibling names must still be unique
        names = list(node.children) + list(node._lazy_children)
        real = [c.name for c in node._childrenv]
        if len(real) != len(set(real)) or set(node.children) & set(node._lazy_children):
            raise Violation("duplicate sibling names in the tree: %s" % sorted(names), signature="c19:duplicate-accepted")
        return {"nontrivial": False, "labels": ["duplicate:collapsed"]}
    twin = {}
    try:
        root, expected = build_prog(bt, "root", prog, twin=twin)
    except Exception as e:
        raise Violation("construction raised %s: %s" % (type(e).__name__, str(e)[:200]), signature="c19:construct-raises")
    # the same child objects (same list / same dict) used for a second tree: both trees are wired to themselves, share no node, and the
    # caller's own objects stay what they were (detached, under their own names)
    t2 = twin["node"]
    check_structure(bt, t2, twin["expected"], t2, ["root"], True)
    ids1 = {id(m) for m in root.members} | {id(c) for m in root.members for c in getattr(m, "_lazy_children", {}).values()}
    ids2 = {id(m) for m in t2.members} | {id(c) for m in t2.members for c in getattr(m, "_lazy_children", {}).values()}
    if ids1 & ids2:
        shared = [m.full_name for m in t2.members if id(m) in ids1]
        raise Violation("two trees built from the same child objects share nodes: %s" % shared, signature="c19:shared-node")
    for nm, obj, own in twin["objs"]:
        if id(obj) in ids1 or id(obj) in ids2:
            raise Violation("the caller's own object %r (passed as %r) was wired into a tree instead of a copy" % (own, nm), signature="c19:caller-object-wired")
        if obj.name != own or obj.parent is not obj or obj.root is not obj:
            raise Violation("the caller's own object %r was changed by building a tree from it: name %r, parent %r" % (own, obj.name, getattr(obj.parent, "name", None)), signature="c19:caller-object-changed")
    # some nodes may have been switched on their own before the setting is pushed from the top
    for k_, m_ in enumerate(root.members):
        if m_ is not root and spec.get("flips") and spec["flips"][k_ % len(spec["flips"])]:
            m_.use_integer_positions(not spec["integer"])
    root.use_integer_positions(spec["integer"])
    check_structure(bt, root, expected, root, ["root"], spec["integer"])
    fee = interp.Fee({"kind": "fixed", "f": 1.0})
    root.set_commissions(fee)
    for m in root.members:
        if isinstance(m, bt.core.StrategyBase) and m.commission_fn is not fee:
            raise Violation("commission function did not reach %s" % m.full_name, signature="c19:commission")

    def depth(p):
        return 1 + max([depth(k["node"]) for k in p["children"] if k["kind"] == "strat"] + [0])

    def special(p):
        return bool(p["rename"]) or any(k["attach"] == "parent_arg" for k in p["children"]) or any(special(k["node"]) for k in p["children"] if k["kind"] == "strat")

    labs = ["depth=%d" % depth(prog)] + (["renamed_or_late"] if special(prog) else [])
    return {"nontrivial": depth(prog) >= 2 or special(prog), "labels": labs}


# ---- universe scoping in real runs ----------------------------------------------------------------
@st.composite
def universe_spec(draw):
    if draw(st.integers(0, 3)) == 0:
        return draw(late_attach_spec())
    spec = draw(gen.backtest_spec(max_dates=10, allow_risk=False))
    # sometimes declare a ticker that is not in the data (must be dropped from the universe)
    nodes = list(gen.walk_nodes(spec["tree"]))
    for _, nd in nodes:
        nd["algos"].insert(0, ["Probe", {"key": "c19uni", "run_always": True}])
        if nd.get("children") is not None and draw(st.integers(0, 4)) == 0:
            nd["children"].append("zz_not_in_data")
    return spec


@st.composite
def late_attach_spec(draw):
    """a parent (declaring tickers or nothing at all) gets a sub-strategy attached afterwards with parent="""
    spec = draw(gen.backtest_spec(max_dates=8, nested=False, allow_risk=False, allow_flow=False, scale_free=True))
    tickers = sorted(spec["prices"])
    sub_t = draw(st.lists(st.sampled_from(tickers), min_size=1, max_size=len(tickers), unique=True))
    sub = {"name": "late1", "kind": "Strategy", "algos": [["Probe", {"key": "c19uni", "run_always": True}], ["RunDaily", {}], ["SelectAll", {}], ["WeighEqually", {}], ["Rebalance", {}]], "children": list(sub_t)}
    root = spec["tree"]
    root["algos"] = [["Probe", {"key": "c19uni", "run_always": True}], ["RunDaily", {}], ["SelectAll", {}], ["WeighEqually", {}], ["Rebalance", {}]]
    if draw(st.booleans()):
        root.pop("children", None)
    if sorted(sub_t) == tickers:
        # wanting every ticker is the same as declaring nothing: the newcomer's universe is the data, no more (no strategy columns)
        sub.pop("children")
    root["late"] = [sub]
    return spec


def declared_of(nd):
    kids = nd.get("children")
    late = [c["name"] for c in nd.get("late") or []]
    if not kids:
        return None, late
    tick, subs = [], []
    for c in kids:
        if isinstance(c, str):
            tick.append(c)
        elif "sec" in c:
            tick.append(c["sec"])
        else:
            subs.append(c["name"])
    return tick, subs + late


def case_universe(ctx, spec):
    bt = ctx.bt
    by_path = {">".join(p): nd for p, nd in gen.walk_nodes(spec["tree"])}
    data_cols = sorted(spec["prices"])
    seen = {"n": 0, "scoped": False}
    holder = {}

    def cb(algo, target):
        if target.root is not holder.get("root"):
            return
        nd = by_path[target.full_name]
        tick, subs = declared_of(nd)
        cols = [str(c) for c in target.universe.columns]
        if tick is None:
            # nothing declared at construction: all tickers, plus a column per sub-strategy attached later
            exp = list(data_cols) + subs
            seen["scoped"] = seen["scoped"] or bool(subs)
        else:
            exp = [t for t in data_cols if t in tick] + subs
            seen["scoped"] = seen["scoped"] or bool(subs)
        if sorted(cols) != sorted(exp) or len(cols) != len(set(cols)):
            raise Violation("universe of %s has columns %s, expected %s (declared %s, sub-strategies %s)" % (target.full_name, cols, exp, tick, subs), signature="c19:universe-columns")
        for sname in subs or []:
            child = target.children[sname]
            col = np.asarray(target.universe[sname], dtype=float)
            pr = np.asarray(child.prices, dtype=float)
            m = min(len(col), len(pr))
            if not np.allclose(col[:m], pr[:m], rtol=1e-12, atol=0, equal_nan=True):
                raise Violation("universe column %s of %s = %s but the child's index is %s" % (sname, target.full_name, col[:m].tolist()[-3:], pr[:m].tolist()[-3:]), signature="c19:universe-substrategy")
        seen["n"] += 1

    interp.Probe.registry["c19uni"] = cb
    try:
        interp.seed_rngs(spec)
        fee = interp.Fee(spec["fee"]) if spec.get("fee", {}).get("kind", "none") != "none" else None
        b = interp.mk_backtest(bt, spec, fee=fee)
        holder["root"] = b.strategy
        try:
            b.run()
        except Violation:
            raise
        except Exception as e:
            raise Discard("run raised (C10's business): %s" % type(e).__name__)
    finally:
        interp.Probe.registry.pop("c19uni", None)
    check_live_structure(bt, b.strategy, "after the run")
    # settings pushed from the top reached every node, including children created lazily mid-run
    for m in walk_live(b.strategy):
        if m.integer_positions != spec.get("integer_positions", True):
            raise Violation("integer_positions did not reach %s (created lazily: %s)" % (m.full_name, isinstance(m, bt.core.SecurityBase)), signature="c19:lazy-integer-flag")
        if fee is not None and isinstance(m, bt.core.StrategyBase) and m.commission_fn is not fee:
            raise Violation("commission function did not reach %s" % m.full_name, signature="c19:lazy-commission")
        if isinstance(m, bt.core.SecurityBase) and m.parent.children.get(m.name) is not m:
            raise Violation("%s is not registered in its parent" % m.full_name, signature="c19:lazy-registration")
        if m.root is not b.strategy:
            raise Violation("%s.root is not the backtest's strategy" % m.full_name, signature="c19:lazy-root")
    return {"nontrivial": seen["n"] > 0 and seen["scoped"], "labels": gen.spec_labels(spec)}


# ---- lazy vs eager ---------------------------------------------------------------------------------
def eagerize(tree, lazy):
    t = copy.deepcopy(tree)
    for _, nd in gen.walk_nodes(t):
        if nd.get("children"):
            new = []
            for c in nd["children"]:
                if isinstance(c, str):
                    new.append(c if lazy else {"sec": c, "mult": 1})
                elif "sec" in c:
                    new.append(c["sec"] if (lazy and c.get("mult", 1) == 1) else {"sec": c["sec"], "mult": c.get("mult", 1), **({"lazy": True} if lazy else {})})
                else:
                    new.append(c)
            nd["children"] = new
    return t


def walk_live(node):
    out = [node]
    for c in node.children.values():
        out += walk_live(c)
    return out


def check_live_structure(bt, root, tag):
    """members / securities / parent / root of every node agree with the children dictionaries as they are now (after lazily declared
    children have been created)"""
    for m in walk_live(root):
        exp = walk_live(m)
        got = m.members
        if [id(x) for x in got] != [id(x) for x in exp] and sorted(map(id, got)) != sorted(map(id, exp)):
            raise Violation("%s: %s.members is %s but its subtree is %s" % (tag, m.full_name, [x.full_name for x in got], [x.full_name for x in exp]), signature="c19:members-after-run")
        if m.root is not root:
            raise Violation("%s: %s.root is not the tree's root" % (tag, m.full_name), signature="c19:lazy-root")
        for c in m.children.values():
            if c.parent is not m:
                raise Violation("%s: %s.parent is not %s" % (tag, c.full_name, m.full_name), signature="c19:parent-after-run")
        if isinstance(m, bt.core.StrategyBase):
            esec = [x for x in exp if isinstance(x, bt.core.SecurityBase)]
            gsec = m.securities
            if sorted(map(id, gsec)) != sorted(map(id, esec)):
                raise Violation("%s: %s.securities is %s but the securities of its subtree are %s" % (tag, m.full_name, [x.full_name for x in gsec], [x.full_name for x in esec]), signature="c19:securities-after-run")
            cols = sorted(map(str, m.positions.columns))
            if cols != sorted({x.name for x in esec}):
                raise Violation("%s: %s.positions has columns %s but its subtree holds securities %s" % (tag, m.full_name, cols, sorted({x.name for x in esec})), signature="c19:positions-columns")


def _run_touched(bt, spec, touch):
    """run the spec; with touch, the caller has looked at the template first (members, securities, full names) - looking changes nothing"""
    if not touch:
        return c10.run_backtest(bt, spec)
    frames = interp.mk_frames(spec)
    template = interp.mk_node(bt, spec["tree"], spec, frames)
    for m in walk_live(template):
        m.members, m.full_name
        if isinstance(m, bt.core.StrategyBase):
            m.securities
    interp.seed_rngs(spec)
    b = interp.mk_backtest(bt, spec, frames=frames, strategy=template)
    import contextlib
    import io

    with contextlib.redirect_stdout(io.StringIO()):
        b.run()
    return b


def case_lazy_vs_eager(ctx, spec):
    bt = ctx.bt
    touch = bool(spec.get("touch"))
    spec = {k: v for k, v in spec.items() if k != "touch"}
    s_lazy = copy.deepcopy(spec)
    s_lazy["tree"] = eagerize(spec["tree"], True)
    s_eager = copy.deepcopy(spec)
    s_eager["tree"] = eagerize(spec["tree"], False)
    try:
        b1 = _run_touched(bt, s_lazy, touch)
    except Exception as e:
        raise Discard("run raised (C10's business): %s" % type(e).__name__)
    try:
        b2 = _run_touched(bt, s_eager, touch)
    except Exception as e:
        raise Violation("pre-constructed children make the run raise %s: %s (string children run fine)" % (type(e).__name__, str(e)[:200]), signature="c19:eager-raises")
    check_live_structure(bt, b1.strategy, "string children")
    check_live_structure(bt, b2.strategy, "pre-constructed children")
    h1 = interp.tree_history(b1.strategy, bt)
    h2 = interp.tree_history(b2.strategy, bt)
    cap = abs(spec.get("initial_capital", 1e6))
    for name in sorted(set(h1) | set(h2)):
        a, b = h1.get(name), h2.get(name)
        if a is None or b is None:
            present = a or b
            if any(x not in (0.0, None) for nm in ("positions", "outlays", "values") for x in present.get(nm, [])):
                raise Violation("%s exists only with %s children but is not flat" % (name, "eager" if a is None else "lazy"), signature="c19:lazy-node")
            continue
        for nm in a:
            x = np.array([np.nan if v is None else v for v in a[nm]], dtype=float)
            y = np.array([np.nan if v is None else v for v in b.get(nm, [])], dtype=float)
            if nm == "prices" and not isinstance(b1.strategy, type(None)) and name != "root" and ">" in name and name.split(">")[-1] in spec["prices"]:
                # a security created on first use has no price rows before its creation date; positions/values there are zero
                mask = ~np.isnan(x) & ~np.isnan(y)
                x, y = x[mask], y[mask]
            if len(x) != len(y) or not np.allclose(x, y, rtol=1e-9, atol=1e-9 * cap, equal_nan=True):
                i = int(np.argmax(~np.isclose(x, y, rtol=1e-9, atol=1e-9 * cap, equal_nan=True))) if len(x) == len(y) else -1
                if {"algo=SelectMomentum", "algo=SelectN"} & set(gen.spec_labels(spec)):
                    # a ranked selection breaks ties (equal returns at the start, flat prices) by the order of its candidates, and the
                    # children come in a different order in the two constructions: the statement does not promise the same pick
                    raise Discard("ranked selection: ties are broken by the order of the children, which the two constructions do not share")
                raise Violation("%s.%s differs between string children and pre-constructed securities (row %d: %r vs %r)" % (name, nm, i, x[i] if i >= 0 else len(x), y[i] if i >= 0 else len(y)), signature="c19:lazy-vs-eager:" + nm)
    depth = max(len(p_) for p_, _ in gen.walk_nodes(spec["tree"]))
    return {"nontrivial": c10.n_trades(bt, b1) >= 2, "labels": gen.spec_labels(spec) + (["template_inspected_first"] if touch else []) + ["depth=%d" % depth]}


@st.composite
def lve_spec(draw):
    # order-dependent RNG algos are excluded: eager children change the order in which children are created, not the universe
    k = draw(st.integers(0, 3))
    if k == 0:
        spec = draw(gen.backtest_spec(max_dates=12, nested=True, scale_free=True, allow_risk=False, depth3=True, max_sub=2))
    else:
        spec = draw(gen.backtest_spec(max_dates=12, declare=True, scale_free=True, allow_risk=False))
    spec["touch"] = draw(st.booleans())
    return spec


# ---- settings pushed from the top vs nodes that join later ---------------------------------------------
@st.composite
def settings_spec(draw):
    """a tree assembled in generated order: settings pushed from the root (integer positions on/off, a commission function) before or
    after sub-strategies are attached (at construction, or later with parent=, before or after setup), securities named by strings
    and created on first use.  In the end every node trades on the root's terms."""
    steps = []
    n_push = draw(st.integers(1, 3))
    for _ in range(n_push):
        steps.append(["push_int", draw(st.booleans())] if draw(st.integers(0, 2)) else ["push_fee"])
    steps.append(["setup"])
    for nm, par in (("s1", "root"), ("s2", draw(st.sampled_from(["root", "root>s1"])))):
        if nm == "s2" and draw(st.booleans()):
            continue
        kids = [draw(st.sampled_from([t, t, {"sec": t}, {"sec": t, "lazy": True}])) for t in draw(st.lists(st.sampled_from(["a", "b", "c"]), min_size=1, max_size=3, unique=True))]
        steps.append(["attach", nm, par, kids, draw(st.sampled_from(["Strategy", "StrategyBase"]))])
    order = draw(st.permutations(list(range(len(steps)))))
    steps = [steps[i] for i in order]
    # a sub-strategy can only be attached under a parent that exists
    names = []
    fixed = []
    pending = []
    for stp in steps:
        if stp[0] == "attach" and stp[2] == "root>s1" and "s1" not in names:
            pending.append(stp)
            continue
        fixed.append(stp)
        if stp[0] == "attach":
            names.append(stp[1])
            fixed += [q for q in pending if q[2] == "root>" + stp[1]]
            pending = [q for q in pending if q[2] != "root>" + stp[1]]
    return {"steps": fixed, "amount": draw(st.sampled_from([1000.0, 12345.67, 250.5])), "root_kids": draw(st.sampled_from([None, ["c"], ["a", "b", "c"]])), "newcomers_trade": draw(st.integers(0, 2)) == 0, "live_after_setup": draw(st.booleans())}


def case_settings(ctx, spec):
    try:
        return _case_settings(ctx, spec)
    except (Violation, Discard):
        raise
    except Exception as e:
        from ..harness import bt_frame_signature

        # every step is ordinary use of the public API on a well-formed tree and data set: an error is an outcome, not a harness failure
        raise Violation("a well-formed sequence of pushes, attachments and trades raised %s: %s; steps %s" % (type(e).__name__, str(e)[:200], spec["steps"]), signature="c19:settings-raises:" + bt_frame_signature(e))


def _case_settings(ctx, spec):
    bt = ctx.bt
    import pandas as pd

    dts = pd.to_datetime(["2021-03-01", "2021-03-02", "2021-03-03"])
    data = pd.DataFrame({"a": [17.25, 17.5, 17.0], "b": [101.3, 100.9, 102.2], "c": [9.99, 10.01, 10.4]}, index=dts)
    fee = interp.Fee({"kind": "fixed", "f": 1.5})
    root = bt.core.Strategy("root", [], children=spec["root_kids"])
    is_setup = False
    nodes = {"root": root}
    pushed_int, pushed_fee = True, False
    labs = set()
    funded = False
    for stp in spec["steps"]:
        if stp[0] == "push_int":
            root.use_integer_positions(stp[1])
            pushed_int = stp[1]
        elif stp[0] == "push_fee":
            root.set_commissions(fee)
            pushed_fee = True
        elif stp[0] == "setup":
            root.setup(data)
            is_setup = True
            if spec.get("live_after_setup"):
                # the tree is funded and running when the remaining steps happen
                root.adjust(1e6)
                root.update(dts[0])
                funded = True
                labs.add("steps_on_a_live_tree")
        else:
            _, nm, par, kids, cls = stp
            parent = nodes[par]
            if is_setup and funded:
                # the parent's universe has been looked at today already (any selection algo does) when the newcomer arrives
                parent.universe
            built = [k if isinstance(k, str) else bt.core.Security(k["sec"], **({"lazy_add": True} if k.get("lazy") else {})) for k in kids]
            if cls == "Strategy":
                stack = [bt.algos.SelectAll(), bt.algos.WeighEqually(), bt.algos.Rebalance()] if spec.get("newcomers_trade") else []
                new = bt.core.Strategy(nm, stack, children=built, parent=parent)
            else:
                new = bt.core.StrategyBase(nm, children=built, parent=parent)
            new = parent.children[nm]
            nodes[par + ">" + nm] = new
            if is_setup:
                new.setup_from_parent()
                labs.add("attached_after_setup")
                if funded and nm not in parent.universe.columns:
                    raise Violation("the universe of %s, read again after the sub-strategy %s joined it on %s, has no column for it (columns %s); steps %s" % (parent.full_name, nm, root.now, [str(c) for c in parent.universe.columns], spec["steps"]), signature="c19:settings-universe-column")
            if pushed_fee or pushed_int is False:
                labs.add("attached_after_push")
    if not is_setup:
        root.setup(data)
    if not funded:
        root.adjust(1e6)
    root.update(dts[0])
    # fund every sub-strategy and let each of them trade every ticker it may trade (creating string-named securities on first use)
    for path in sorted(nodes, key=len):
        nd = nodes[path]
        if nd is not root:
            nd.parent.allocate(50000.0, child=nd.name)
    root.update(dts[0])
    for path in sorted(nodes, key=len):
        nd = nodes[path]
        for t in list(nd._universe_tickers) or (["a"] if nd is root and spec["root_kids"] is None else []):
            if t in data.columns:
                nd.allocate(spec["amount"], child=t)
    root.update(dts[0])
    if spec.get("newcomers_trade"):
        # let every strategy's own stack (and that of its shadow copy) trade, today and on the next date
        for d_ in (dts[0], dts[1]):
            root.update(d_)
            root.run()
            root.update(d_)
            for path, nd in nodes.items():
                if nd is root:
                    continue
                seen = float(nd.parent.universe.loc[d_, nd.name])
                if not (abs(seen - nd.price) <= 1e-12 * max(1.0, abs(nd.price))):
                    raise Violation("on %s the universe of %s shows %r for its sub-strategy %s, whose index is %r; steps %s" % (d_, nd.parent.full_name, seen, nd.name, nd.price, spec["steps"]), signature="c19:settings-universe-cell")
    for m in walk_live(root):
        if m.integer_positions != pushed_int:
            raise Violation("integer_positions=%s was pushed from the root but %s (%s) has %s; steps %s" % (pushed_int, m.full_name, type(m).__name__, m.integer_positions, spec["steps"]), signature="c19:settings-integer")
        if isinstance(m, bt.core.StrategyBase) and pushed_fee and m.commission_fn is not fee:
            raise Violation("the commission function pushed from the root did not reach %s; steps %s" % (m.full_name, spec["steps"]), signature="c19:settings-commission")
        if isinstance(m, bt.core.SecurityBase) and m.position != 0:
            whole = float(m.position) == float(int(m.position))
            if pushed_int and not whole:
                raise Violation("%s holds %r units although whole units were asked for from the root" % (m.full_name, m.position), signature="c19:settings-quantity")
            if not pushed_int and whole and abs(m.position * m.price - spec["amount"]) > (1.5 if pushed_fee else 0.0) + 1e-6:
                raise Violation("%s holds the whole quantity %r for an amount of %r at price %r although fractional positions were asked for from the root; steps %s" % (m.full_name, m.position, spec["amount"], m.price, spec["steps"]), signature="c19:settings-quantity")
    check_live_structure(bt, root, "settings")
    return {"nontrivial": "attached_after_push" in labs, "labels": sorted(labs) + ["int=%s" % pushed_int] + (["fee"] if pushed_fee else []) + (["newcomers_trade"] if spec.get("newcomers_trade") else [])}


SUBS = {"construct": case_construct, "universe": case_universe, "lazy_vs_eager": case_lazy_vs_eager, "settings": case_settings}
STRATS = {"construct": construct_spec, "universe": universe_spec, "lazy_vs_eager": lve_spec, "settings": settings_spec}


def shard(ctx):
    run_sub(ctx, "construct", construct_spec(), lambda s: case_construct(ctx, s), ctx.n(3000, 40000))
    run_sub(ctx, "universe", universe_spec(), lambda s: case_universe(ctx, s), ctx.n(800, 10000))
    run_sub(ctx, "lazy_vs_eager", lve_spec(), lambda s: case_lazy_vs_eager(ctx, s), ctx.n(640, 8000))
    run_sub(ctx, "settings", settings_spec(), lambda s: case_settings(ctx, s), ctx.n(1200, 15000))
