"""C13 Algo stacks short-circuit, run_always runs, temp resets, perm persists."""
import itertools

import numpy as np
import pandas as pd
from hypothesis import strategies as st

from .. import gen, interp
from ..harness import Discard, Violation, run_sub

RULE = (
    "stacks (enumerated): every AlgoStack of length 0-6 over {returns True, returns False} x {plain, run_always=True, run_always=False} (55,987 stacks), plus nested stacks / Or / Not "
    "one level deep over the same alphabet, against a reference interpreter written from the statement (observed: which algos were called, in which order, truthiness of the result); "
    "Require over item in {absent, None, falsy, truthy} x predicate x if_none. tree (generated, Hypothesis recursive): stacks/Or/Not nested to depth 4. run (generated): Strategy.run through "
    "real backtests of generated strategy trees with spy algos that survive deepcopy: temp empty at entry of every run, perm preserved, own stack before children, each child exactly "
    "once per run. hand_run (generated): 2-3 strategies built by the constructor and run as constructed (no Backtest copy), interleaved in a generated order, optionally with a sub-strategy created with parent= on a later date: temp empty and perm == what the same object's previous run left, at the start of every run. oob (generated): RunIfOutOfBounds on generated held portfolios vs targets/tolerance, with and without temp['cash']. non-trivial = a stack with a False before a "
    "run_always algo / a nested tree / an out-of-bounds child. distinct = distinct cases (enumerated cases are distinct by construction)."
)
ASSUMPTIONS = ["algos return Python bools or numpy bools (what comparisons on prices return)", "with temp['cash'] RunIfOutOfBounds must not raise, is True when a security is out of bounds and False when everything incl. cash is exactly on target (no claim in between)"]

SYMS = [(r, ra) for r in (True, False) for ra in (None, True, False)]


class Spy(object):
    def __init__(self, log, ident, ret, ra):
        self.log, self.ident, self.ret = log, ident, ret
        if ra is not None:
            self.run_always = ra

    def __call__(self, target):
        self.log.append(self.ident)
        return self.ret


def ref_stack(items, log):
    """reference interpreter. items: list of ('leaf', ident, ret, ra) | ('stack', [items]) | ('or', [items]) | ('not', item)"""
    res = True
    for it in items:
        ra = it[3] if it[0] == "leaf" else None
        if res:
            res = ref_item(it, log)
        elif ra is True:
            ref_item(it, log)
    return res


def ref_item(it, log):
    if it[0] == "leaf":
        log.append(it[1])
        return it[2]
    if it[0] == "stack":
        return ref_stack(it[1], log)
    if it[0] == "or":
        res = False
        for x in it[1]:
            r = ref_item(x, log)
            res = res or r
        return res
    if it[0] == "not":
        return not ref_item(it[1], log)
    raise ValueError(it[0])


def build_item(bt, it, log):
    if it[0] == "leaf":
        # every other algo answers with a numpy bool, which is what a comparison on prices or values returns (it is not a subclass of bool)
        import numpy as np

        if it[3] is True and it[1] % 3 == 0:
            # the mark sits on the class (the @run_always decorator applied to an Algo subclass, as the ClosePositionsAfterDates docstring
            # suggests), the instance is built by a constructor that chains to Algo.__init__
            def _init(self, log_, ident_, ret_):
                bt.core.Algo.__init__(self)
                self.log, self.ident, self.ret = log_, ident_, ret_

            def _call(self, target):
                self.log.append(self.ident)
                return self.ret

            cls = bt.algos.run_always(type("MarkedAlgo", (bt.core.Algo,), {"__init__": _init, "__call__": _call}))
            return cls(log, it[1], it[2])
        return Spy(log, it[1], np.bool_(it[2]) if it[1] % 2 == 1 else it[2], it[3])
    if it[0] == "stack":
        return bt.core.AlgoStack(*[build_item(bt, x, log) for x in it[1]])
    if it[0] == "or":
        return bt.algos.Or([build_item(bt, x, log) for x in it[1]])
    if it[0] == "not":
        return bt.algos.Not(build_item(bt, it[1], log))


def run_tree(bt, items):
    log = []
    stack = bt.core.AlgoStack(*[build_item(bt, x, log) for x in items])
    got = stack(None)
    rlog = []
    exp = ref_stack(items, rlog)
    if bool(got) != bool(exp) or log != rlog:
        raise Violation("stack %s: result %r calls %s, expected %r calls %s" % (show(items), got, log, exp, rlog), signature="stack:" + ("result" if bool(got) != bool(exp) else "calls"))
    return log


def show(items):
    out = []
    for it in items:
        if it[0] == "leaf":
            out.append(("T" if it[2] else "F") + {None: "", True: "!", False: "."}[it[3]])
        elif it[0] == "not":
            out.append("~" + show([it[1]]))
        else:
            out.append(("[" if it[0] == "stack" else "|(") + show(it[1]) + ("]" if it[0] == "stack" else ")"))
    return " ".join(out)


def leafs(seq, start=0):
    return [("leaf", start + i, r, ra) for i, (r, ra) in enumerate(seq)]


def exhaustive_jobs(tier, seed):
    return [{"part": "flat", "first": i} for i in range(len(SYMS))] + [{"part": "nested"}, {"part": "require"}]


def exhaustive(ctx, payload):
    bt = ctx.bt
    n = nt = 0
    st_ = ctx.stats

    def fail(items, v):
        st_.failures.append({"sub": "stackspec", "message": v.msg, "signature": v.signature, "spec": {"items": items}})

    try:
        if payload["part"] == "flat":
            f = SYMS[payload["first"]]
            if payload["first"] == 0:
                run_tree(bt, [])
                n += 1
            for L in range(0, 6):
                for rest in itertools.product(SYMS, repeat=L):
                    seq = (f,) + rest
                    items = leafs(seq)
                    try:
                        run_tree(bt, items)
                    except Violation as v:
                        fail(items, v)
                        return {"cases": n, "nontrivial": nt, "complete": False}
                    n += 1
                    # non-trivial: a failure followed later by a run_always algo
                    seen_f = False
                    for r, ra in seq:
                        if seen_f and ra is not None:
                            nt += 1
                            break
                        if not r:
                            seen_f = True
        elif payload["part"] == "nested":
            inner_seqs = [s for L in range(0, 3) for s in itertools.product(SYMS, repeat=L)]
            for kind in ("stack", "or", "not"):
                for inner in inner_seqs:
                    if kind == "not" and len(inner) != 1:
                        continue
                    for pre in [()] + [(s,) for s in SYMS]:
                        for post in [()] + [(s,) for s in SYMS]:
                            mid = ("not", leafs(inner, 10)[0]) if kind == "not" else (kind, leafs(inner, 10))
                            items = leafs(pre, 0) + [mid] + leafs(post, 20)
                            try:
                                run_tree(bt, items)
                            except Violation as v:
                                fail(items, v)
                                return {"cases": n, "nontrivial": nt, "complete": False}
                            n += 1
                            nt += 1
        else:
            preds = {"truthy": bool, "len0": lambda x: len(x) == 0 if hasattr(x, "__len__") else False, "always": lambda x: True, "never": lambda x: False}
            import pandas as pd

            # temp entries are whatever the algos put there: lists, dicts, and pandas objects (statistics, weights) - empty ones included
            vals = {
                "absent": None, "none": None, "zero": 0, "empty": [], "false": False, "one": 1, "list": ["a"], "true": True, "empty_dict": {}, "dict": {"a": 1.0},
                "empty_series": pd.Series(dtype=float), "series": pd.Series({"a": 1.0}), "empty_index": pd.Index([]), "empty_frame": pd.DataFrame(),
            }
            preds = dict(preds)
            preds["truthy"] = lambda x: bool(len(x)) if hasattr(x, "__len__") else bool(x)

            class T(object):
                pass

            for pn, pred in preds.items():
                for vn, val in vals.items():
                    for if_none in (True, False):
                        t = T()
                        t.temp = {} if vn == "absent" else {"item": val}
                        got = bt.algos.Require(pred, "item", if_none)(t)
                        exp = if_none if vn in ("absent", "none") else pred(val)
                        n += 1
                        nt += 1
                        if bool(got) != bool(exp):
                            st_.failures.append({"sub": "require", "message": "Require(%s, if_none=%s) on %s returned %r, expected %r" % (pn, if_none, vn, got, exp), "signature": "require", "spec": {"pred": pn, "val": vn, "if_none": if_none}})
                            return {"cases": n, "nontrivial": nt, "complete": False}
    finally:
        st_.evaluations += n
        st_.per_sub["enumerated:" + payload["part"]] += n
    return {"cases": n, "nontrivial": nt, "complete": True}


def exhaustive_summary(results):
    return {
        "cases": sum(r["cases"] for r in results),
        "complete": all(r.get("complete") for r in results),
        "bound": "all flat stacks of length 0-6 over 6 symbols; one nested stack/Or (length 0-2) or Not with 0-1 algos before and after; Require truth table",
    }


def case_stackspec(ctx, spec):
    items = _tup(spec["items"])
    run_tree(ctx.bt, items)
    return {"nontrivial": True}


def _tup(items):
    out = []
    for it in items:
        if it[0] == "leaf":
            out.append(("leaf", it[1], it[2], it[3]))
        elif it[0] == "not":
            out.append(("not", _tup([it[1]])[0]))
        else:
            out.append((it[0], _tup(it[1])))
    return out


def case_require(ctx, spec):
    return {"nontrivial": True}


# ---- generated recursive trees -------------------------------------------------------------------
def tree_items():
    leaf = st.tuples(st.just("leaf"), st.integers(0, 0), st.booleans(), st.sampled_from([None, None, True, False])).map(list)

    def extend(children):
        return st.one_of(
            st.tuples(st.just("stack"), st.lists(children, max_size=4)).map(list),
            st.tuples(st.just("or"), st.lists(children, max_size=3)).map(list),
            st.tuples(st.just("not"), children).map(list),
        )

    return st.lists(st.recursive(leaf, extend, max_leaves=12), max_size=6)


def _renumber(items, counter):
    out = []
    for it in items:
        if it[0] == "leaf":
            out.append(["leaf", counter[0], it[2], it[3]])
            counter[0] += 1
        elif it[0] == "not":
            out.append(["not", _renumber([it[1]], counter)[0]])
        else:
            out.append([it[0], _renumber(it[1], counter)])
    return out


def _depth(items):
    d = 0
    for it in items:
        if it[0] == "not":
            d = max(d, 1 + _depth([it[1]]))
        elif it[0] != "leaf":
            d = max(d, 1 + _depth(it[1]))
    return d


def case_tree(ctx, spec):
    items = _tup(_renumber(spec["items"], [0]))
    run_tree(ctx.bt, items)
    return {"nontrivial": _depth(spec["items"]) >= 1, "labels": ["depth=%d" % min(4, _depth(spec["items"]))]}


# ---- Strategy.run through real backtests -------------------------------------------------------------
@st.composite
def run_spec(draw):
    ds = draw(gen.dates(2, 8, kinds=("bday", "daily")))
    n = len(ds)
    nt = 2
    pr = draw(gen.prices(n, ["a", "b"], n_clean=2, vol=0.05))

    def node(name, depth):
        nprobe = draw(st.integers(1, 3))
        nprobe = draw(st.integers(1, 4))
        algos = [["Probe", {"key": "c13run", "tag": i, "ret": draw(st.sampled_from([True, True, False])) if i < nprobe - 1 else True, "run_always": draw(st.sampled_from([None, None, True, False]))}] for i in range(nprobe)]
        if draw(st.booleans()):
            algos += [["SelectAll", {}], ["WeighEqually", {}], ["Rebalance", {}]]
        kids = []
        if depth < 2:
            for i in range(draw(st.integers(0, 2))):
                kids.append(node("%s_%d" % (name, i), depth + 1))
        d = {"name": name, "kind": "Strategy", "algos": algos}
        # securities are children too: plain ones (run() is a no-op) or user-defined ones whose run() does something
        for t in ["a", "b"][: draw(st.integers(0, 2))]:
            kids.append({"sec": t, "kind": "RunnableSecurity"} if draw(st.booleans()) else t)
        if kids:
            d["children"] = kids
        return d

    return {"dates": ds, "prices": pr, "tree": node("r", 0), "integer_positions": False, "initial_capital": 1e6, "fee": {"kind": "none"}, "frames": {}, "additional": [], "rng_seed": 0}


def case_run(ctx, spec):
    bt = ctx.bt
    log = []
    holder = {}

    def cb(algo, target):
        real = target.root is holder.get("root")
        entry = "seen" not in target.temp
        log.append({"node": target.full_name, "real": real, "now": target.now, "temp_keys": sorted(target.temp.keys()), "perm": dict(target.perm), "first": entry, "tag": algo.tag})
        target.temp["seen"] = True
        target.perm["count"] = target.perm.get("count", 0) + (1 if entry else 0)
        return None

    sec_runs = []

    def sec_cb(sec):
        if sec.root is holder.get("root"):
            sec_runs.append((sec.root.now, sec.full_name, len(log)))

    interp.Probe.registry["c13run"] = cb
    interp.Probe.registry["secrun"] = sec_cb
    try:
        b = interp.mk_backtest(bt, spec)
        holder["root"] = b.strategy
        b.run()
    except Exception as e:
        raise Discard("run raised: %s" % type(e).__name__)
    finally:
        interp.Probe.registry.pop("c13run", None)
        interp.Probe.registry.pop("secrun", None)
    real_log = [e for e in log if e["real"]]
    # per date: order and multiplicity of node runs (a node 'runs' when its first probe fires with fresh temp)
    names = [m.full_name for m in b.strategy.members if isinstance(m, bt.core.Strategy)]
    parent_of = {m.full_name: (m.parent.full_name if m.parent is not m else None) for m in b.strategy.members if isinstance(m, bt.core.Strategy)}
    by_date = {}
    for e in real_log:
        by_date.setdefault(e["now"], []).append(e)
    runs_per_node = {nm: 0 for nm in names}
    for dt_, entries in by_date.items():
        firsts = [e for e in entries if e["first"]]
        order = [e["node"] for e in firsts]
        if len(order) != len(set(order)):
            raise Violation("a node ran more than once on %s: %s" % (dt_, order), signature="run:twice")
        if set(order) != set(names):
            raise Violation("on %s the nodes %s did not run (ran: %s)" % (dt_, sorted(set(names) - set(order)), order), signature="run:missing")
        pos = {nm: i for i, nm in enumerate(order)}
        for nm in names:
            p = parent_of[nm]
            if p is not None and pos[p] > pos[nm]:
                raise Violation("child %s ran before its parent %s on %s" % (nm, p, dt_), signature="run:order")
        for e in firsts:
            if e["temp_keys"]:
                raise Violation("temp of %s not empty at the start of its run on %s: %s" % (e["node"], dt_, e["temp_keys"]), signature="run:temp")
            if e["perm"].get("count", 0) != runs_per_node[e["node"]]:
                raise Violation("perm of %s lost between runs: count %r after %d runs" % (e["node"], e["perm"].get("count"), runs_per_node[e["node"]]), signature="run:perm")
        # own stack before children's: every probe entry of the parent precedes the first entry of any child
        last_parent_idx = {}
        for i, e in enumerate(entries):
            last_parent_idx[e["node"]] = i
        first_idx = {}
        for i, e in enumerate(entries):
            first_idx.setdefault(e["node"], i)
        for nm in names:
            p = parent_of[nm]
            if p is not None and last_parent_idx[p] > first_idx[nm]:
                raise Violation("parent %s was still running its stack after child %s started on %s" % (p, nm, dt_), signature="run:interleave")
        for nm in order:
            runs_per_node[nm] += 1
    # inside a real backtest (the stacks are deep copies of the template's) every stack still short-circuits and still runs its run_always members
    node_specs = {">".join(p_): nd for p_, nd in gen.walk_nodes(spec["tree"])}
    for dt_, entries in by_date.items():
        for nm in names:
            probes = [a[1] for a in node_specs[nm]["algos"] if a[0] == "Probe"]
            exp_tags, res = [], True
            for pr_ in probes:
                if res:
                    exp_tags.append(pr_["tag"])
                    res = bool(pr_["ret"])
                elif pr_.get("run_always"):
                    exp_tags.append(pr_["tag"])
            got_tags = [e["tag"] for e in entries if e["node"] == nm]
            if got_tags != exp_tags:
                raise Violation(
                    "stack of %s (probes (ret, run_always): %s) inside a backtest called probes %s on %s, expected %s" % (nm, [(q["ret"], q.get("run_always")) for q in probes], got_tags, dt_, exp_tags),
                    signature="run:stack-in-backtest",
                )
    # every child runs exactly once per run of its parent - user-defined securities included
    runsecs = [m.full_name for m in b.strategy.members if type(m).__name__ == "RunnableSecurity"]
    for dt_ in by_date:
        for nm in runsecs:
            cnt = sum(1 for d_, n_, _ in sec_runs if d_ == dt_ and n_ == nm)
            if cnt != 1:
                raise Violation("child security %s ran %d times on %s (its parent ran once)" % (nm, cnt, dt_), signature="run:security-child")
    n_dates = len(spec["dates"])
    if sorted(by_date) and len(by_date) != n_dates:
        raise Violation("strategy ran on %d dates, data has %d" % (len(by_date), n_dates), signature="run:dates")
    return {"nontrivial": len(names) > 1, "labels": ["nodes=%d" % min(len(names), 5)]}


# ---- strategies run as constructed (no Backtest copy in between): perm belongs to each strategy object ----------------
@st.composite
def hand_run_spec(draw):
    ds = draw(gen.dates(3, 6, kinds=("bday", "daily")))
    n = len(ds)
    k = draw(st.integers(2, 3))
    order = [draw(st.permutations(list(range(k)))) for _ in range(n)]
    skip = [[draw(st.integers(0, 4)) == 0 for _ in range(k)] for _ in range(n)]
    late = None
    if draw(st.booleans()):
        # a sub-strategy created inside a live strategy on a later date (the repository's dynamic-strategy pattern)
        late = {"parent": draw(st.integers(0, k - 1)), "date": draw(st.integers(1, n - 1))}
    return {"dates": ds, "k": k, "order": [list(o) for o in order], "skip": skip, "late": late}


def case_hand_run(ctx, spec):
    """on every run a strategy starts with empty temp and finds in perm exactly what its own previous run left there - whatever other
    strategies (built by the same constructor, run in between) do with theirs"""
    import pandas as pd

    bt = ctx.bt
    ds = spec["dates"]
    idx = interp.mk_dates(ds)
    data = pd.DataFrame({"a": [100.0 + i for i in range(len(ds))], "b": [50.0 - i for i in range(len(ds))]}, index=idx)
    last_end = {}
    runs = {}
    names = {}

    def probe(target):
        key = id(target)
        start = dict(target.perm)
        if target.temp:
            raise Violation("temp of %s not empty at the start of a run: %s" % (names.get(key, target.name), sorted(target.temp)), signature="hand:temp")
        exp = last_end.get(key, {})
        if start != exp:
            raise Violation(
                "perm of %s at the start of its run #%d is %s, expected %s (what its own previous run left; other strategies run in between: %s)" % (names.get(key, target.name), runs.get(key, 0) + 1, start, exp, sorted(set(names.values()) - {names.get(key)})),
                signature="hand:perm",
            )
        runs[key] = runs.get(key, 0) + 1
        target.perm["runs"] = runs[key]
        target.perm["owner"] = names.get(key, target.name)
        target.temp["seen"] = True
        last_end[key] = dict(target.perm)
        return True

    strats = []
    for i in range(spec["k"]):
        s_ = bt.core.Strategy("s%d" % i, [probe])
        s_.setup(data)
        s_.adjust(1000.0)
        names[id(s_)] = s_.name
        strats.append(s_)
    lates = []
    for j, d in enumerate(idx):
        for s_ in strats:
            s_.update(d)
        if spec["late"] and spec["late"]["date"] == j:
            par = strats[spec["late"]["parent"]]
            new = bt.core.Strategy("late", [probe], parent=par)
            new.setup_from_parent()
            new.update(par.now)
            names[id(new)] = par.name + ">late"
            lates.append(new)
        for pos in spec["order"][j]:
            if spec["skip"][j][pos]:
                continue
            strats[pos].run()
    total = sum(runs.values())
    return {"nontrivial": total >= 3 and len([v for v in runs.values() if v >= 2]) >= 2, "labels": ["k=%d" % spec["k"]] + (["late_substrategy"] if lates else [])}


# ---- RunIfOutOfBounds ---------------------------------------------------------------------------------
@st.composite
def oob_spec(draw):
    nt = draw(st.integers(1, 4))
    tickers = gen.TICKERS[:nt]
    prices0 = {t: draw(st.sampled_from([10.0, 25.5, 100.0, 3.3])) for t in tickers}
    moves = {t: draw(st.sampled_from([1.0, 1.0, 1.05, 0.9, 1.3, 0.7, 1.001])) for t in tickers}
    held = draw(st.lists(st.sampled_from(tickers), min_size=1, max_size=nt, unique=True))
    raw = [draw(st.integers(1, 10)) for _ in held]
    invest = draw(st.sampled_from([1.0, 0.8, 0.5]))
    # long/short books: a short leg has a negative target, and its deviation is relative to the size of that target
    w0 = {t: invest * r / float(sum(raw)) * (-1 if draw(st.integers(0, 3)) == 0 else 1) for t, r in zip(held, raw)}
    tk = draw(st.sampled_from(["same", "same", "perturbed", "subset", "extra"]))
    targets = dict(w0)
    if tk == "perturbed":
        for t in list(targets):
            targets[t] = targets[t] * draw(st.sampled_from([1.0, 1.02, 0.9, 1.5]))
    elif tk == "subset" and len(targets) > 1:
        targets.pop(sorted(targets)[0])
    elif tk == "extra":
        for t in tickers:
            if t not in targets:
                targets[t] = 0.1
    tol = draw(st.sampled_from([0.0, 0.01, 0.05, 0.2, 0.5, 1.0]))
    cash = draw(st.sampled_from([None, None, "exact", 0.1, 0.3]))
    return {"prices0": prices0, "moves": moves, "w0": w0, "targets": targets, "tol": tol, "cash": cash, "no_weights": draw(st.integers(0, 12)) == 0}


def case_oob(ctx, spec):
    bt = ctx.bt
    tickers = sorted(spec["prices0"])
    d0, d1 = pd.Timestamp("2020-03-02"), pd.Timestamp("2020-03-03")
    data = pd.DataFrame({t: [spec["prices0"][t], spec["prices0"][t] * spec["moves"][t]] for t in tickers}, index=[d0, d1])
    s = bt.Strategy("s", [], children=tickers)
    s.setup(data)
    s.use_integer_positions(False)
    s.adjust(1e6)
    s.update(d0)
    for t, w in spec["w0"].items():
        s.rebalance(w, t, base=1e6)
    s.update(d0)
    s.update(d1)
    algo = bt.algos.RunIfOutOfBounds(spec["tol"])
    s.temp = {}
    if not spec["no_weights"]:
        s.temp["weights"] = dict(spec["targets"])
    cash_t = spec["cash"]
    if cash_t is not None:
        s.temp["cash"] = (s.capital / s.value) if cash_t == "exact" else cash_t
    try:
        got = bool(algo(s))
    except Exception as e:
        raise Violation("RunIfOutOfBounds raised %s: %s (cash in temp: %s)" % (type(e).__name__, str(e)[:100], cash_t is not None), signature="oob:raises" + (":cash" if cash_t is not None else ""))
    if spec["no_weights"]:
        if not got:
            raise Violation("RunIfOutOfBounds without weights returned False", signature="oob:noweights")
        return {"nontrivial": False, "labels": ["no_weights"]}
    devs = {}
    for c in s.children:
        if c in spec["targets"]:
            t = spec["targets"][c]
            devs[c] = abs(s.children[c].weight / t - 1.0)
    margin = 1e-9
    sec_oob = any(d > spec["tol"] + margin for d in devs.values())
    sec_in = all(d < spec["tol"] - margin for d in devs.values())
    labs = ["cash" if cash_t is not None else "nocash"] + (["short_target"] if any(v < 0 for v in spec["targets"].values()) else [])
    if cash_t is None:
        if sec_oob and not got:
            raise Violation("a held target deviates by %s > tolerance %s but RunIfOutOfBounds is False" % (max(devs.values()), spec["tol"]), signature="oob:missed")
        if sec_in and got:
            raise Violation("all held targets within tolerance %s (max deviation %s) but RunIfOutOfBounds is True" % (spec["tol"], max(devs.values()) if devs else None), signature="oob:spurious")
    else:
        if sec_oob and not got:
            raise Violation("with cash in temp: a held target deviates by %s > tolerance %s but result is False" % (max(devs.values()), spec["tol"]), signature="oob:missed:cash")
        on_target = all(d < 1e-12 for d in devs.values()) and cash_t == "exact"
        if on_target and got and spec["tol"] > 0:
            raise Violation("everything including cash exactly on target but RunIfOutOfBounds is True", signature="oob:spurious:cash")
    if sec_oob:
        labs.append("oob")
    return {"nontrivial": sec_oob, "labels": labs}


SUBS = {"stackspec": case_stackspec, "require": case_require, "tree": case_tree, "run": case_run, "oob": case_oob, "hand_run": case_hand_run}
STRATS = {"tree": lambda: tree_items().map(lambda x: {"items": x}), "run": run_spec, "oob": oob_spec, "hand_run": hand_run_spec}


def shard(ctx):
    run_sub(ctx, "tree", tree_items().map(lambda x: {"items": x}), lambda s: case_tree(ctx, s), ctx.n(3000, 80000))
    run_sub(ctx, "run", run_spec(), lambda s: case_run(ctx, s), ctx.n(320, 6000))
    run_sub(ctx, "oob", oob_spec(), lambda s: case_oob(ctx, s), ctx.n(1600, 30000))
    run_sub(ctx, "hand_run", hand_run_spec(), lambda s: case_hand_run(ctx, s), ctx.n(800, 12000))
