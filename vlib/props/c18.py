"""C18 Reports agree with the node histories they summarise."""
import copy

import numpy as np
import pandas as pd
from hypothesis import strategies as st

from .. import gen, interp
from ..harness import Discard, Violation, run_sub
from . import c10

RULE = (
    "report: finished grammar-generated backtests (flat and nested trees, tickers shared by several sub-strategies, multipliers, runs with no trades or no securities, shorts, bid/offer "
    "on or off, several trades per date); every report is recomputed from the node histories by an independent implementation: component weights = node values / root values, "
    "security weights aggregated by name and summing with all strategies' cash fractions to one, positions aggregated per ticker, transaction quantities cumulating to the aggregated "
    "positions and quantity x price x multiplier equal to the aggregated outlay per (date, ticker) (so the execution price incl. spread is pinned), turnover and Herfindahl by formula, "
    "Result prices == strategy prices. replay: the transaction list of a zero-commission run fed through ReplayTransactions into a fresh flat strategy reproduces aggregated positions "
    "(1e-6) and root values (1e-9 relative) date by date. fi_report: fixed-income runs (positions come from transact and are fractional whatever the integer flag says): positions report == sum of same-named securities' positions, transactions cumulate to it, component weights == notional / root notional. non-trivial = at least two trades (report) / a spread or a nested source tree (replay). distinct = distinct spec hashes."
)
ASSUMPTIONS = [
    "replay uses pre-constructed Security children with the source multipliers and bidoffer tracking (what the repository's own replay tests do)",
    "replay cases where a (date, ticker) has offsetting trades (zero net quantity but spread paid) are discarded: the transaction list is a net report by construction",
]
BUILDS = {"quick": ["py"], "thorough": ["py", "cy"]}


def agg_by_name(bt, s, attr):
    out = {}
    for m in s.members:
        if isinstance(m, bt.core.SecurityBase):
            v = np.asarray(getattr(m, attr), dtype=float)
            out[m.name] = out.get(m.name, 0) + v
    return out


def case_report(ctx, spec):
    bt = ctx.bt
    interp.Probe.registry["c18read"] = _reader_cb
    try:
        b = c10.run_backtest(bt, spec)
    except Exception as e:
        raise Discard("run raised (C10's business): %s" % type(e).__name__)
    finally:
        interp.Probe.registry.pop("c18read", None)
    try:
        return _check_reports(bt, b, spec)
    except (Violation, Discard):
        raise
    except Exception as e:
        # the reports do not even have the documented shape (missing column, wrong length, ...)
        raise Violation("a report does not have the documented shape: %s: %s" % (type(e).__name__, str(e)[:200]), signature="c18:shape:" + type(e).__name__)


def _check_reports(bt, b, spec):
    labs_extra = []
    s = b.strategy
    V = np.asarray(s.values, dtype=float)
    n = len(V)
    ok = np.abs(V) > 1e-9
    secs = [m for m in s.members if isinstance(m, bt.core.SecurityBase)]
    strats = [m for m in s.members if isinstance(m, bt.core.StrategyBase)]
    idx = s.values.index

    def report(fn, what):
        try:
            return fn()
        except Exception as e:
            raise Violation("%s raised %s: %s (securities in tree: %d)" % (what, type(e).__name__, str(e)[:120], len(secs)), signature="c18:raises:" + what)

    # reports may be asked for in any order, any number of times: none may depend on which was computed first
    order = spec.get("report_order") or []
    first = {}
    for nm in order:
        first[nm] = report(lambda nm=nm: getattr(b, nm), nm)
    # component weights
    w = report(lambda: b.weights, "weights")
    for m in s.members:
        col = np.asarray(w[m.full_name], dtype=float)
        exp = np.asarray(m.values, dtype=float) / V
        if not np.allclose(col[ok], exp[ok], rtol=1e-12, atol=1e-12, equal_nan=True):
            raise Violation("weights[%s] != values / root values" % m.full_name, signature="c18:weights")
    # security weights
    sw = report(lambda: b.security_weights, "security_weights")
    vals = agg_by_name(bt, s, "values")
    if sorted(map(str, sw.columns)) != sorted(vals):
        raise Violation("security_weights columns %s != security names %s" % (list(sw.columns), sorted(vals)), signature="c18:sw-columns")
    tot = np.zeros(n)
    for nm, v in vals.items():
        col = np.asarray(sw[nm], dtype=float)
        if not np.allclose(col[ok], (v / V)[ok], rtol=1e-12, atol=1e-12):
            i = int(np.argmax(ok & ~np.isclose(col, v / V, rtol=1e-12, atol=1e-12)))
            raise Violation("security_weights[%s] row %d is %r, expected aggregated value %r / root value %r" % (nm, i, col[i], v[i], V[i]), signature="c18:sw-values")
        tot += col
    cashfrac = sum(np.asarray(m.cash, dtype=float) for m in strats) / V
    if secs and not np.allclose((tot + cashfrac)[ok], 1.0, rtol=0, atol=1e-9):
        i = int(np.argmax(ok & (np.abs(tot + cashfrac - 1.0) > 1e-9)))
        raise Violation("security weights + cash fractions sum to %r on row %d" % ((tot + cashfrac)[i], i), signature="c18:sw-sum")
    # positions
    pos = report(lambda: b.positions, "positions")
    ap = agg_by_name(bt, s, "positions")
    if sorted(map(str, pos.columns)) != sorted(ap):
        raise Violation("positions columns %s != %s" % (list(pos.columns), sorted(ap)), signature="c18:pos-columns")
    for nm, v in ap.items():
        if not np.allclose(np.asarray(pos[nm], dtype=float), v, rtol=0, atol=1e-9, equal_nan=True):
            raise Violation("positions[%s] != sum of same-named securities' positions" % nm, signature="c18:positions")
    # HHI, turnover
    hhi = report(lambda: b.herfindahl_index, "herfindahl_index")
    exp_h = sum(((v / V) ** 2) for v in vals.values()) if vals else np.zeros(n)
    if not np.allclose(np.asarray(hhi, dtype=float)[ok], np.asarray(exp_h)[ok], rtol=1e-10, atol=1e-12):
        raise Violation("herfindahl_index != sum of squared security weights", signature="c18:hhi")
    to = report(lambda: b.turnover, "turnover")
    ao = agg_by_name(bt, s, "outlays")
    posi = np.zeros(n)
    nega = np.zeros(n)
    for v in ao.values():
        posi += np.where(v >= 0, v, 0.0)
        nega += np.where(v < 0, -v, 0.0)
    exp_t = np.minimum(posi, nega) / V
    got_t = np.asarray(to, dtype=float)
    if len(got_t) != n:
        raise Violation("turnover has %d rows, the run has %d dates" % (len(got_t), n), signature="c18:turnover-shape")
    if not np.allclose(got_t[ok], exp_t[ok], rtol=1e-10, atol=1e-12):
        i = int(np.argmax(ok & ~np.isclose(got_t, exp_t, rtol=1e-10, atol=1e-12)))
        raise Violation("turnover row %d is %r, expected min(buys %r, sells %r) / value %r" % (i, got_t[i], posi[i], nega[i], V[i]), signature="c18:turnover")
    # Result
    res = report(lambda: bt.backtest.Result(b), "Result")
    rp = np.asarray(res.prices[b.name], dtype=float)
    if not np.allclose(rp, np.asarray(s.prices, dtype=float), rtol=0, atol=0):
        raise Violation("Result.prices != strategy.prices", signature="c18:result-prices")
    # a Result over several backtests (here: the same strategy definition over the whole data and over its tail, so the two
    # start on different dates): each column is still that backtest's own index on the dates it covers
    k0 = spec.get("second_start")
    if k0:
        tail = dict(spec, dates=spec["dates"][k0:], prices={t: v[k0:] for t, v in spec["prices"].items()})
        tail = {kk: vv for kk, vv in tail.items() if kk not in ("second_start", "report_order", "mixed_kinds")}
        fr_ok = all(f.get("dates") is None for f in (tail.get("frames") or {}).values())
        if fr_ok and not tail.get("frames") and not tail.get("bidoffer"):
            try:
                b2 = c10.run_backtest(bt, tail)
            except Exception:
                b2 = None
            if b2 is not None:
                b2.name = str(b.name) + "_tail"
                res2 = report(lambda: bt.backtest.Result(b, b2), "Result of two backtests")
                for bb in (b, b2):
                    # (a Result keeps the dates all its backtests share)
                    col = res2.prices[bb.name]
                    own = bb.strategy.prices.reindex(col.index)
                    if len(col) == 0:
                        continue
                    if not np.allclose(np.asarray(col, dtype=float), np.asarray(own, dtype=float), rtol=0, atol=0, equal_nan=True):
                        i = int(np.argmax(~np.isclose(np.asarray(col, dtype=float), np.asarray(own, dtype=float), rtol=0, atol=0, equal_nan=True)))
                        raise Violation("Result(whole, tail).prices[%s] on %s is %r but that backtest's index is %r" % (bb.name, own.index[i], float(col.iloc[i]), float(own.iloc[i])), signature="c18:result-prices-multi")
                labs_extra.append("result_of_two_backtests")
    # transactions
    tx = report(lambda: res.get_transactions(), "get_transactions")
    mult = {}
    for m in secs:
        mult.setdefault(m.name, set()).add(m.multiplier)
    cum = {nm: np.zeros(n) for nm in ap}
    seen = set()
    date_pos = {d: i for i, d in enumerate(idx)}
    for (d, nm), row in tx.iterrows():
        i = date_pos[d]
        seen.add((i, nm))
        q = float(row["quantity"])
        cum[nm][i:] += q
        if len(mult[nm]) == 1:
            m_ = list(mult[nm])[0]
            out = ao[nm][i]
            if not abs(q * float(row["price"]) * m_ - out) <= 1e-9 * max(abs(out), 1.0) + 1e-7:
                raise Violation(
                    "transaction %s %s: quantity %r x price %r x multiplier %r = %r but the recorded outlay (execution incl. spread) is %r" % (d, nm, q, float(row["price"]), m_, q * float(row["price"]) * m_, out),
                    signature="c18:tx-price" + (":mult" if m_ != 1 else "") + (":shared" if sum(1 for x in secs if x.name == nm) > 1 else ""),
                )
    for nm, v in ap.items():
        if not np.allclose(cum[nm], v, rtol=0, atol=1e-6 * max(1.0, np.abs(v).max())):
            i = int(np.argmax(np.abs(cum[nm] - v) > 1e-6 * max(1.0, np.abs(v).max())))
            raise Violation("transactions of %s cumulate to %r on row %d but the position is %r" % (nm, cum[nm][i], i, v[i]), signature="c18:tx-cumulate")
    for nm, v0 in first.items():
        v1 = report(lambda nm=nm: getattr(b, nm), nm)
        same = v0.equals(v1) if hasattr(v0, "equals") else v0 == v1
        if not same:
            raise Violation("%s read before the other reports differs from the same report read afterwards" % nm, signature="c18:report-order:" + nm)
    labs = gen.spec_labels(spec) + labs_extra
    if order:
        labs.append("first_report=" + order[0])
    if any(sum(1 for x in secs if x.name == nm) > 1 for nm in ap):
        labs.append("shared_ticker")
    if any(m.multiplier != 1 for m in secs):
        labs.append("multiplier")
    if not secs:
        labs.append("no_securities")
    if spec.get("mixed_kinds"):
        labs.append("mixed_security_kinds")
    return {"nontrivial": len(tx) >= 2, "labels": labs}


def _reader_cb(algo, target):
    # a user algo that merely looks at the tree's reports mid-run
    target.positions
    target.outlays
    target.values
    target.universe
    return True


@st.composite
def report_spec(draw):
    spec = draw(_report_spec())
    if draw(st.integers(0, 3)) == 0 and len(spec["dates"]) >= 5 and not spec.get("frames") and not spec.get("bidoffer"):
        spec["second_start"] = draw(st.integers(1, len(spec["dates"]) - 3))
    spec["report_order"] = draw(st.lists(st.sampled_from(["security_weights", "herfindahl_index", "positions", "turnover", "weights"]), min_size=0, max_size=3, unique=True))
    if draw(st.booleans()):
        nodes = list(gen.walk_nodes(spec["tree"]))
        _, nd = nodes[draw(st.integers(0, len(nodes) - 1))]
        nd["algos"].insert(draw(st.integers(0, len(nd["algos"]))), ["Probe", {"key": "c18read", "run_always": True}])
    return spec


@st.composite
def _report_spec(draw):
    k = draw(st.integers(0, 9))
    if k == 0:
        # a run that never trades / has no securities
        spec = draw(gen.backtest_spec(max_dates=8, nested=False, declare=False))
        spec["tree"]["algos"] = [["RunAfterDate", {"date": "2100-01-01"}]] + spec["tree"]["algos"]
        return spec
    if k <= 2:
        # a market-value book holding securities of every kind (fixed-income, coupon-paying and hedge securities are weighed by value there,
        # like everything else)
        spec = draw(gen.backtest_spec(max_dates=12, nested=False, declare=True, allow_risk=False))
        n = len(spec["dates"])
        kids = []
        coup = {}
        for c in spec["tree"]["children"]:
            t = c if isinstance(c, str) else c["sec"]
            kind = draw(st.sampled_from(["Security", "FixedIncomeSecurity", "CouponPayingSecurity", "HedgeSecurity", "CouponPayingHedgeSecurity"]))
            d = {"sec": t, "kind": kind}
            if isinstance(c, dict):
                d.update({k_: v for k_, v in c.items() if k_ in ("mult", "lazy")})
            kids.append(d)
            if kind.startswith("CouponPaying"):
                coup[t] = [draw(st.sampled_from([0.0, 0.0, 0.01, 0.5])) for _ in range(n)]
        spec["tree"]["children"] = kids
        if coup:
            # every coupon-paying security needs a coupon on every date it may be held
            spec["frames"]["coupons"] = {"kind": "frame", "cols": coup}
            spec["additional"] = sorted(set(spec["additional"]) | {"coupons"})
        spec["mixed_kinds"] = True
        return spec
    return draw(gen.backtest_spec(max_dates=14))


# ---- replay ------------------------------------------------------------------------------------------
def case_replay(ctx, spec):
    bt = ctx.bt
    src = copy.deepcopy(spec)
    src["fee"] = {"kind": "none"}
    try:
        b = c10.run_backtest(bt, src)
    except Exception as e:
        raise Discard("run raised (C10's business): %s" % type(e).__name__)
    s = b.strategy
    if s.bankrupt:
        raise Discard("bankrupt")
    secs = [m for m in s.members if isinstance(m, bt.core.SecurityBase)]
    if not secs:
        raise Discard("no securities")
    mult = {}
    for m in secs:
        mult.setdefault(m.name, set()).add(m.multiplier)
    if any(len(v) > 1 for v in mult.values()):
        raise Discard("one ticker with two multipliers")
    try:
        tx = s.get_transactions()
    except Exception as e:
        raise Discard("get_transactions raised (report sub's business)")
    ap = agg_by_name(bt, s, "positions")
    # netted trades: spread paid but no net quantity in that ticker on that date (opposite trades of two sub-strategies sharing it, or a
    # round trip within the date) - the transaction list has no row that could carry that spread (open finding F29)
    netted = False
    if s._bidoffer_set:
        abo = agg_by_name(bt, s, "bidoffers_paid")
        for nm in ap:
            dq = np.diff(ap[nm], prepend=0.0)
            if ((np.abs(abo[nm]) > 1e-12) & (np.abs(dq) < 1e-12)).any():
                netted = True
    data = interp.mk_data(src)
    flows = np.asarray(s.flows, dtype=float)
    kids = [bt.core.Security(nm, multiplier=list(mult[nm])[0]) for nm in sorted(ap)]
    flow_algos = []
    for i, f in enumerate(flows[1:], start=1):
        if f != 0:
            flow_algos.append(bt.algos.Or([bt.core.AlgoStack(bt.algos.RunOnDate(s.flows.index[i]), bt.algos.CapitalFlow(f)), interp.Const(True)]))
    rs = bt.core.Strategy("replay", flow_algos + [bt.algos.ReplayTransactions("tx")], children=kids)
    add = {"tx": tx, "bidoffer": {}}
    if src.get("bidoffer") is not None:
        add["bidoffer"] = interp.mk_frame(src["dates"], src["bidoffer"])
    elif spec.get("replay_quotes_bps"):
        add["bidoffer"] = data.fillna(0.0) * spec["replay_quotes_bps"] / 1e4
    rb = bt.Backtest(rs, data, integer_positions=False, initial_capital=src.get("initial_capital", 1e6), additional_data=add, progress_bar=False)
    try:
        rb.run()
    except Exception as e:
        raise Violation("replaying the transaction list raised %s: %s" % (type(e).__name__, str(e)[:150]), signature="c18:replay-raises")
    rp = agg_by_name(bt, rb.strategy, "positions")
    for nm in ap:
        a, r_ = ap[nm], rp.get(nm, np.zeros(len(ap[nm])))
        if not np.allclose(a, r_, rtol=0, atol=1e-6 * max(1.0, np.abs(a).max())):
            i = int(np.argmax(np.abs(a - r_) > 1e-6 * max(1.0, np.abs(a).max())))
            raise Violation("replay: position of %s on row %d is %r, source run had %r" % (nm, i, r_[i], a[i]), signature="c18:replay-positions")
    V = np.asarray(s.values, dtype=float)
    RV = np.asarray(rb.strategy.values, dtype=float)
    if not np.allclose(V, RV, rtol=1e-9, atol=1e-6):
        i = int(np.argmax(~np.isclose(V, RV, rtol=1e-9, atol=1e-6)))
        raise Violation("replay: root value on row %d is %r, source run had %r (difference %r)%s" % (i, RV[i], V[i], RV[i] - V[i], " [same-date trades netting to zero in one ticker paid a spread]" if netted else ""), signature="c18:replay-values" + (":netted" if netted else ""))
    labs = gen.spec_labels(src) + (["netted_same_date_trades"] if netted else []) + (["two_step_stack"] if spec.get("two_step") else []) + (["replayed_against_market_quotes"] if (src.get("bidoffer") is None and spec.get("replay_quotes_bps")) else [])
    return {"nontrivial": len(tx) >= 2 and (bool(src.get("bidoffer")) or "nested" in labs), "labels": labs}


@st.composite
def replay_spec(draw):
    spec = draw(gen.backtest_spec(max_dates=12, allow_risk=False))
    if draw(st.integers(0, 7)) == 0 and "children" not in spec["tree"] or (draw(st.integers(0, 15)) == 0 and not any(isinstance(c, dict) and "name" in c for c in spec["tree"].get("children") or [])):
        # a stack that trades in two steps on one date: the second step may undo (part of) the first, e.g. buy a ticker and sell it again
        tick = sorted(t for t, v in spec["prices"].items() if all(x is not None for x in v))
        if tick:
            t0 = draw(st.sampled_from(tick))
            spec["tree"]["algos"] = spec["tree"]["algos"] + [["WeighSpecified", {"weights": {t0: draw(st.sampled_from([0.0, 0.0, 0.3]))}}], ["Rebalance", {}]]
            spec["two_step"] = True
    # the blotter of a run made without spreads may be replayed in a set-up that carries market quotes: a listed price is the price paid
    spec["replay_quotes_bps"] = draw(st.sampled_from([None, None, 20, 100]))
    return spec


def known_match(spec, v):
    """open findings: identified by the way the case fails and the condition computed from the source run"""
    if v.signature == "c18:replay-values:netted":
        return "F29-transactions-net-same-date-trades"
    return None


def _fi_spec():
    from . import c17

    return c17.run_spec()


def case_fi_report(ctx, spec):
    """fixed-income runs (positions come from transact and are fractional whatever the integer flag says): the positions report is the
    sum of the same-named securities' positions, the transaction list cumulates to it, component and security weights are notional over
    the root's notional"""
    bt = ctx.bt
    base = {k: v for k, v in spec.items() if k not in ("kinds", "weights", "nested")}
    try:
        b = c10.run_backtest(bt, base)
    except Exception as e:
        raise Discard("run raised (C10/C17's business): %s" % type(e).__name__)
    s = b.strategy
    try:
        pos = b.positions
        ap = agg_by_name(bt, s, "positions")
        if sorted(map(str, pos.columns)) != sorted(ap):
            raise Violation("positions columns %s != %s" % (list(pos.columns), sorted(ap)), signature="c18:fi-pos-columns")
        frac = False
        for nm, v in ap.items():
            got = np.asarray(pos[nm], dtype=float)
            if not np.allclose(got, v, rtol=0, atol=1e-9 * max(1.0, np.abs(v).max())):
                i = int(np.argmax(np.abs(got - v)))
                raise Violation("positions[%s] row %d is %r, the securities of that name hold %r (integer_positions=%s)" % (nm, i, got[i], v[i], base.get("integer_positions")), signature="c18:fi-positions")
            frac = frac or bool((np.abs(v - np.round(v)) > 1e-6).any())
        if s.securities:
            tx = s.get_transactions()
            for nm, v in ap.items():
                q = tx.xs(nm, level=1)["quantity"] if nm in tx.index.get_level_values(1) else None
                cum = np.zeros(len(v))
                if q is not None:
                    for d_, x in q.items():
                        cum[list(s.values.index).index(d_) :] += float(x)
                if not np.allclose(cum, v, rtol=0, atol=1e-6 * max(1.0, np.abs(v).max())):
                    i = int(np.argmax(np.abs(cum - v)))
                    raise Violation("transactions of %s cumulate to %r on row %d, recorded position %r" % (nm, cum[i], i, v[i]), signature="c18:fi-transactions")
        N = np.asarray(s.notional_values, dtype=float)
        ok = np.abs(N) > 1e-9
        w = b.weights
        for m in s.members:
            col = np.asarray(w[m.full_name], dtype=float)
            exp = np.asarray(m.notional_values, dtype=float) / np.where(ok, N, 1.0)
            if not np.allclose(col[ok], exp[ok], rtol=1e-12, atol=1e-12):
                raise Violation("weights[%s] != notional / root notional for a fixed-income root" % m.full_name, signature="c18:fi-weights")
    except (Violation, Discard):
        raise
    except Exception as e:
        raise Violation("a report of a fixed-income run does not have the documented shape: %s: %s" % (type(e).__name__, str(e)[:200]), signature="c18:fi-shape:" + type(e).__name__)
    return {"nontrivial": frac, "labels": ["fi"] + (["fractional_positions"] if frac else []) + (["integer_flag_set"] if base.get("integer_positions") else [])}


SUBS = {"report": case_report, "replay": case_replay, "fi_report": case_fi_report}
STRATS = {"report": report_spec, "replay": replay_spec, "fi_report": _fi_spec}


def shard(ctx):
    run_sub(ctx, "report", report_spec(), lambda s: case_report(ctx, s), ctx.n(1000, 15000))
    run_sub(ctx, "replay", replay_spec(), lambda s: case_replay(ctx, s), ctx.n(640, 8000), known_match=known_match)
    run_sub(ctx, "fi_report", _fi_spec(), lambda s: case_fi_report(ctx, s), ctx.n(600, 8000))
