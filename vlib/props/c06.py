"""C06 Rebalance brings every child to its target weight."""
import math

import numpy as np
import pandas as pd
from hypothesis import strategies as st

from .. import gen, interp
from ..harness import Discard, Violation, bt_frame_signature, run_sub

RULE = (
    "rebalance: a generated prior portfolio (long/short weights over 1-5 securities and optionally a funded sub-strategy with its own holdings) is built on one date, prices move to "
    "the next date, then Rebalance runs on generated target weights (long/short, sum |w| <= 1.5, targets incl. the sub-strategy and not-yet-created children, non-targets holding "
    "positions) and an optional cash fraction, with integer or fractional positions and any commission spec / spread. Oracle: fractional and cost-free: every target's weight == (1-c) x w "
    "(1e-9), every non-target with a position is flat, cash fraction == 1 - (1-c) x sum(w); otherwise each target's value is within one unit + the rebalance's costs of (1-c) x w x base and "
    "total value dropped by exactly the recorded costs; a sub-strategy target's value moved to its target and its children moved in proportion to their weights before. "
    "fi_rebalance: fixed-income books (C17's generator, flat and nested, long/short, all security types): right after Rebalance every target's notional == weight x notional base. "
    "over_time: RebalanceOverTime(n) driven for n+1 consecutive dates with moving prices: after call k the gap to target is (n-k)/(n-k+1) of the gap before the call, after call n the "
    "weights equal the targets, call n+1 trades nothing. over_time_rearm: a transition replaced by new targets before it has finished (the first arming optionally with a cash fraction): the "
    "second transition is n equal steps to the new targets, non-targets closed, cash fraction 1 - sum(w), nothing of the first arming survives. non-trivial = prior portfolio non-empty and different from the target. distinct = distinct spec hashes."
)
ASSUMPTIONS = ["commission specs obey C05's domain (one-unit commission + half spread below the unit price)", "tolerance 1e-9 on weights, 1e-9 x value + 1e-6 on money"]
BUILDS = {"quick": ["py"], "thorough": ["py", "cy"]}
FLOORS = {"cash": ("rebalance", 0.2), "substrategy_target": ("rebalance", 0.08)}


@st.composite
def weights(draw, keys, gross_max=1.5, allow_short=True):
    if not keys:
        return {}
    raw = [draw(st.integers(1, 10)) for _ in keys]
    tot = float(sum(raw))
    gross = draw(st.sampled_from([1.0, 1.0, 0.9, 0.6, 0.3, gross_max]))
    out = {}
    for k, r in zip(keys, raw):
        w = gross * r / tot
        if allow_short and draw(st.integers(0, 4)) == 0:
            w = -w
        out[k] = round(w, 6)
    return out


@st.composite
def rebalance_spec(draw):
    nt = draw(st.integers(1, 5))
    tickers = gen.TICKERS[:nt]
    p0 = {t: draw(st.sampled_from([0.37, 2.5, 9.99, 17.25, 50.0, 100.0, 101.3, 412.07, 1234.5])) for t in tickers}
    mv = {t: draw(st.sampled_from([1.0, 1.0, 1.03, 0.95, 1.2, 0.8, 1.001])) for t in tickers}
    mult = {t: draw(st.sampled_from([1, 1, 1, 10, 0.1])) for t in tickers}
    spec = {"p0": p0, "move": mv, "mult": mult, "integer": draw(st.booleans()), "capital": draw(st.sampled_from([1e6, 1e5, 1e7, 54321.0]))}
    prior_keys = draw(st.lists(st.sampled_from(tickers), min_size=0, max_size=nt, unique=True))
    spec["prior"] = draw(weights(prior_keys, gross_max=1.2))
    if nt >= 2 and draw(st.integers(0, 5)) == 0:
        # a dollar-neutral prior book: two legs of exactly opposite value (same price, move and multiplier), so that the strategy's cash
        # equals its value although it holds positions
        a_, b_ = tickers[0], tickers[1]
        p0[b_], mv[b_], mult[b_] = p0[a_], mv[a_], mult[a_]
        w_ = draw(st.sampled_from([0.25, 0.5, 0.4, 1.0]))
        spec["prior"] = {a_: w_, b_: -w_}
        spec["dollar_neutral"] = True
    with_sub = draw(st.integers(0, 2)) == 0
    if with_sub:
        sub_t = draw(st.lists(st.sampled_from(tickers), min_size=1, max_size=nt, unique=True))
        spec["sub"] = {"tickers": sub_t, "prior_weight": draw(st.sampled_from([0.0, 0.2, 0.4])), "inner": draw(weights(sub_t, gross_max=1.0, allow_short=draw(st.booleans())))}
    tkeys = draw(st.lists(st.sampled_from(tickers + (["sub"] if with_sub else [])), min_size=0, max_size=nt + 1, unique=True))
    if with_sub and "sub" not in tkeys and draw(st.booleans()):
        tkeys.append("sub")
    spec["targets"] = draw(weights(tkeys))
    if "sub" in spec["targets"]:
        spec["targets"]["sub"] = abs(spec["targets"]["sub"])
    spec["cash"] = draw(st.sampled_from([None, None, 0.0, 0.1, 0.3, 0.5]))
    costs = draw(st.booleans())
    if costs:
        unit_min = min(p0[t] * min(mv[t], 1.0) * mult[t] for t in tickers)
        k = draw(st.sampled_from(["none", "fixed", "unit", "prop", "max"]))
        room = 0.5 * unit_min
        spec["fee"] = {"none": {"kind": "none"}, "fixed": {"kind": "fixed", "f": min(5.0, room)}, "unit": {"kind": "unit", "k": room * 0.01}, "prop": {"kind": "prop", "r": 0.001}, "max": {"kind": "max", "f": min(1.0, room), "k": room * 0.01}}[k]
        spec["spread_bps"] = draw(st.sampled_from([None, 5, 50]))
    else:
        spec["fee"] = {"kind": "none"}
        spec["spread_bps"] = None
        if with_sub and nt >= 2 and spec["sub"]["prior_weight"] == 0.0 and draw(st.booleans()):
            # an unfunded sub-strategy running a self-financed long/short book: open positions, value exactly zero
            a_, b_ = tickers[0], tickers[1]
            p0[b_], mv[b_], mult[b_] = p0[a_], mv[a_], mult[a_]
            spec["sub"]["tickers"] = sorted(set(spec["sub"]["tickers"]) | {a_, b_})
            spec["sub"]["zero_book"] = [a_, b_, draw(st.sampled_from([1.0, 25.0, 1000.0]))]
    # a contribution / withdrawal booked by CapitalFlow earlier in the same stack: the targets are fractions of the value after the flow
    spec["pre_flow"] = draw(st.sampled_from([None, None, None, 0.25, 1.0, -0.2, -0.5]))
    return spec


D0, D1 = pd.Timestamp("2021-06-01"), pd.Timestamp("2021-06-02")


def build(bt, spec, dates=None):
    tickers = sorted(spec["p0"])
    dates = dates or [D0, D1]
    rows = []
    for i, d in enumerate(dates):
        rows.append({t: spec["p0"][t] * (spec["move"][t] ** i) for t in tickers})
    data = pd.DataFrame(rows, index=dates)
    kids = [bt.core.Security(t, multiplier=spec["mult"][t]) if spec["mult"][t] != 1 else t for t in tickers]
    if spec.get("sub"):
        sub = bt.core.Strategy("sub", [], children=[bt.core.Security(t, multiplier=spec["mult"][t]) if spec["mult"][t] != 1 else t for t in spec["sub"]["tickers"]])
        kids.append(sub)
    s = bt.core.Strategy("s", [], children=kids)
    kw = {}
    if spec.get("spread_bps"):
        kw["bidoffer"] = data * spec["spread_bps"] / 1e4
    s.setup(data, **kw)
    s.use_integer_positions(bool(spec["integer"]))
    fee = interp.Fee(spec["fee"])
    if spec["fee"]["kind"] != "none":
        s.set_commissions(fee)
    s.adjust(spec["capital"])
    s.update(dates[0])
    return s, data, fee


def case_rebalance(ctx, spec):
    bt = ctx.bt
    try:
        s, data, fee = build(bt, spec)
        cap = spec["capital"]
        for t, w in spec["prior"].items():
            s.rebalance(w, t, base=cap)
        if spec.get("sub") and spec["sub"]["prior_weight"] > 0:
            s.rebalance(spec["sub"]["prior_weight"], "sub", base=cap)
            sub = s["sub"]
            sv = sub.value
            for t, w in spec["sub"]["inner"].items():
                sub.rebalance(w, t, base=sv)
        if spec.get("sub") and spec["sub"].get("zero_book"):
            a_, b_, q_ = spec["sub"]["zero_book"]
            s["sub"].transact(q_, child=a_)
            s["sub"].transact(-q_, child=b_)
        s.update(D0)
        s.update(D1)
        if s.bankrupt or s.value <= 0:
            raise Discard("insolvent prior portfolio")
    except Discard:
        raise
    except Exception as e:
        raise Discard("setup raised %s" % type(e).__name__)
    zero_cost = spec["fee"]["kind"] == "none" and not spec.get("spread_bps")
    exact = zero_cost and not spec["integer"]
    base = s.value
    c = spec["cash"] or 0.0
    targets = spec["targets"]
    flow = 0.0
    if spec.get("pre_flow") and not spec.get("dollar_neutral") and not (spec.get("sub") or {}).get("zero_book"):
        flow = round(spec["pre_flow"] * base, 2)
    before = {m.full_name: (m.value, getattr(m, "position", None), m.weight) for m in s.members}
    sub_children_w = {}
    if spec.get("sub"):
        sub = s["sub"]
        sub_children_w = {cname: ch.weight for cname, ch in sub.children.items()}
        sub_value_before = sub.value
        sub_child_values = {cname: ch.value for cname, ch in sub.children.items()}
    s.temp = {"weights": dict(targets)}
    if not targets:
        # nothing is wanted: the target vector comes out of the documented chain (an empty selection weighed equally), not from the harness
        s.temp = {"selected": []}
        bt.algos.WeighEqually()(s)
    if spec["cash"] is not None:
        s.temp["cash"] = spec["cash"]
    if flow:
        # the two algos follow each other in one stack: nothing reads the tree in between
        bt.algos.CapitalFlow(flow)(s)
        base = base + flow
    try:
        ok = bt.algos.Rebalance()(s)
    except Exception as e:
        raise Violation("Rebalance raised %s: %s" % (type(e).__name__, str(e)[:200]), signature="c06:raises:" + bt_frame_signature(e))
    V = s.value
    if s.bankrupt:
        raise Discard("bankrupt")
    fees = float(s.fees.loc[D1]) + sum(float(m.fees.loc[D1]) for m in s.members if isinstance(m, bt.core.StrategyBase) and m is not s)
    bo = sum(float(m.bidoffers_paid.loc[D1]) for m in s.members if isinstance(m, bt.core.SecurityBase) and m._bidoffer_set)
    if abs((base - V) - (fees + bo)) > 1e-9 * base + 1e-6:
        raise Violation("Rebalance changed total value by %r but recorded costs are %r" % (V - base, fees + bo), signature="c06:value-vs-costs")
    labs = ["exact" if exact else ("integer" if spec["integer"] else "costs")]
    if spec.get("dollar_neutral"):
        labs.append("dollar_neutral_prior" + ("+cash" if spec["cash"] else ""))
    if spec["cash"]:
        labs.append("cash")
    if flow:
        labs.append("capital_flow_before_rebalance")
    if spec.get("sub") and spec["sub"].get("zero_book"):
        labs.append("zero_value_sub_book" + ("_targeted" if "sub" in targets else "_not_targeted"))
    prior_nonempty = any(v[1] not in (None, 0) for v in before.values())
    if prior_nonempty:
        labs.append("prior_held")
    # targets
    for name, w in targets.items():
        tgt_w = (1 - c) * w
        if name == "sub":
            ch = s["sub"]
            labs.append("substrategy_target")
            own_costs = float(ch.fees.loc[D1]) + sum(float(g.bidoffers_paid.loc[D1]) for g in ch.children.values() if g._bidoffer_set)
            units = sum(abs(g.price * g.multiplier) for g in ch.children.values() if g.position != 0 or sub_children_w.get(g.name, 0) != 0) if spec["integer"] else 0.0
            if abs(tgt_w) < 1e-16:
                if any(g.position != 0 for g in ch.children.values()):
                    raise Violation("sub-strategy with target 0 still holds positions", signature="c06:sub-not-closed")
                continue
            if abs(ch.value - tgt_w * base) > own_costs + (fees + bo) + units + 1e-9 * base + 1e-6:
                raise Violation("sub-strategy target %r x base %r = %r but its value is %r (own costs %r)" % (tgt_w, base, tgt_w * base, ch.value, own_costs), signature="c06:sub-value")
            # spread over its children in proportion to their weights before
            delta = tgt_w * base - sub_value_before
            if exact:
                for cname, g in ch.children.items():
                    exp = sub_child_values.get(cname, 0.0) + delta * sub_children_w.get(cname, 0.0)
                    if abs(g.value - exp) > 1e-9 * base + 1e-6:
                        raise Violation("capital %r given to the sub-strategy: child %s (weight before %r) moved from %r to %r, expected %r" % (delta, cname, sub_children_w.get(cname, 0.0), sub_child_values.get(cname, 0.0), g.value, exp), signature="c06:sub-spread")
            continue
        if abs(tgt_w) < 1e-16:
            if name in s.children and s.children[name].position != 0:
                raise Violation("target weight 0 for %s but position %r remains" % (name, s.children[name].position), signature="c06:zero-target")
            continue
        if name not in s.children:
            raise Violation("target %s was never created" % name, signature="c06:target-missing")
        ch = s.children[name]
        if exact:
            if abs(ch.weight - tgt_w) > 1e-9:
                raise Violation(
                    "after Rebalance(weights=%s, cash=%s) from prior %s: weight of %s is %r, expected (1-c) x w = %r" % (targets, spec["cash"], {k: round(v[2], 6) for k, v in before.items() if k != "s"}, name, ch.weight, tgt_w),
                    signature="c06:weight" + (":cash" if spec["cash"] else ""),
                )
        else:
            unit = abs(ch.price * ch.multiplier)
            q = ch.position - (before.get(ch.full_name, (0, 0, 0))[1] or 0.0)
            # cost of the executed trade, or of the one-unit trade that the budget could not afford
            qq = q if q != 0 else 1.0
            cost = fee.value(qq, ch.price * ch.multiplier)
            if spec.get("spread_bps"):
                cost += abs(qq) * 0.5 * ch.price * spec["spread_bps"] / 1e4 * ch.multiplier
            # costs of the other trades of the same rebalance shift the live weights against the captured base, hence "plus costs" = all of them
            slack = (unit if spec["integer"] else 0.0) + cost + (fees + bo) + 1e-9 * base + 1e-6
            if abs(ch.value - tgt_w * base) > slack:
                raise Violation(
                    "after Rebalance(weights=%s, cash=%s): value of %s is %r, target (1-c) x w x base = %r, allowed slack one unit %r + cost %r" % (targets, spec["cash"], name, ch.value, tgt_w * base, unit if spec["integer"] else 0.0, cost),
                    signature="c06:value" + (":cash" if spec["cash"] else ""),
                )
    # non-targets closed
    for name, ch in s.children.items():
        if name in targets:
            continue
        if isinstance(ch, bt.core.SecurityBase):
            if ch.position != 0:
                raise Violation("non-target %s still has position %r after Rebalance" % (name, ch.position), signature="c06:non-target-open")
        else:
            if any(g.position != 0 for g in ch.children.values()):
                raise Violation("non-target sub-strategy %s still holds positions after Rebalance" % name, signature="c06:non-target-sub-open")
    if exact:
        exp_cash = 1 - (1 - c) * sum(targets.values())
        got = s.capital / V
        if abs(got - exp_cash) > 1e-9:
            raise Violation("cash fraction after Rebalance is %r, expected 1 - (1-c) x sum(w) = %r" % (got, exp_cash), signature="c06:cash-fraction")
    differs = prior_nonempty and any(abs(before.get("s>" + k, (0, 0, 0))[2] - (1 - c) * w) > 1e-6 for k, w in targets.items())
    return {"nontrivial": bool(differs or (prior_nonempty and not targets)), "labels": labs}


# ---- RebalanceOverTime -------------------------------------------------------------------------------
@st.composite
def over_time_spec(draw):
    nt = draw(st.integers(1, 4))
    tickers = gen.TICKERS[:nt]
    spec = {
        "p0": {t: draw(st.sampled_from([2.5, 17.25, 50.0, 101.3])) for t in tickers},
        "move": {t: draw(st.sampled_from([1.0, 1.01, 0.98, 1.05, 0.93])) for t in tickers},
        "mult": {t: 1 for t in tickers},
        "integer": False,
        "capital": 1e6,
        "fee": {"kind": "none"},
        "spread_bps": None,
        "n": draw(st.integers(1, 5)),
    }
    spec["prior"] = draw(weights(draw(st.lists(st.sampled_from(tickers), min_size=0, max_size=nt, unique=True)), gross_max=1.0))
    spec["targets"] = draw(weights(draw(st.lists(st.sampled_from(tickers), min_size=1, max_size=nt, unique=True)), gross_max=1.0))
    return spec


def case_over_time(ctx, spec):
    bt = ctx.bt
    n = spec["n"]
    dates = [D0 + pd.Timedelta(days=i) for i in range(n + 3)]
    try:
        s, data, fee = build(bt, spec, dates)
        for t, w in spec["prior"].items():
            s.rebalance(w, t, base=spec["capital"])
        s.update(dates[0])
    except Exception as e:
        raise Discard("setup raised %s" % type(e).__name__)
    algo = bt.algos.RebalanceOverTime(n)
    targets = spec["targets"]
    moved = False
    for k in range(1, n + 2):
        s.update(dates[k])
        if s.value <= 0 or s.bankrupt:
            raise Discard("insolvent")
        cur = {t: (s.children[t].weight if t in s.children else 0.0) for t in targets}
        pos_before = {c: ch.position for c, ch in s.children.items()}
        s.temp = {"weights": dict(targets)} if k == 1 else {}
        try:
            algo(s)
        except Exception as e:
            raise Violation("RebalanceOverTime raised %s: %s" % (type(e).__name__, str(e)[:150]), signature="c06:rot-raises")
        if k <= n:
            left = n - k + 1
            for t, w in targets.items():
                exp = cur[t] + (w - cur[t]) / left
                got = s.children[t].weight if t in s.children else 0.0
                if abs(got - exp) > 1e-9:
                    raise Violation("RebalanceOverTime(%d) call %d: weight of %s is %r, expected %r (before %r, target %r, %d calls left)" % (n, k, t, got, exp, cur[t], w, left), signature="c06:rot-step")
                if abs(w - cur[t]) > 1e-9:
                    moved = True
            if k == n:
                for t, w in targets.items():
                    got = s.children[t].weight
                    if abs(got - w) > 1e-9:
                        raise Violation("RebalanceOverTime(%d): after the last step weight of %s is %r, target %r" % (n, t, got, w), signature="c06:rot-final")
        else:
            for c, ch in s.children.items():
                if ch.position != pos_before.get(c, 0.0):
                    raise Violation("RebalanceOverTime(%d) kept trading after its %d steps (%s: %r -> %r)" % (n, n, c, pos_before.get(c, 0.0), ch.position), signature="c06:rot-extra")
    return {"nontrivial": moved, "labels": ["n=%d" % n]}


@st.composite
def rearm_spec(draw):
    spec = draw(over_time_spec())
    spec["n"] = draw(st.integers(2, 5))
    tickers = sorted(spec["p0"])
    spec["targets2"] = draw(weights(draw(st.lists(st.sampled_from(tickers), min_size=1, max_size=len(tickers), unique=True)), gross_max=1.0))
    spec["rearm_after"] = draw(st.integers(1, spec["n"] - 1))
    spec["cash1"] = draw(st.sampled_from([None, None, 0.2, 0.4]))
    return spec


def case_over_time_rearm(ctx, spec):
    """a transition that is replaced by a new set of targets before it has finished: the second transition is n equal steps from
    wherever the first one got to, to the new targets - nothing of the first arming (its targets, its cash fraction) survives"""
    bt = ctx.bt
    n = spec["n"]
    j = spec["rearm_after"]
    dates = [D0 + pd.Timedelta(days=i) for i in range(j + n + 3)]
    try:
        s, data, fee = build(bt, spec, dates)
        for t, w in spec["prior"].items():
            s.rebalance(w, t, base=spec["capital"])
        s.update(dates[0])
    except Exception as e:
        raise Discard("setup raised %s" % type(e).__name__)
    algo = bt.algos.RebalanceOverTime(n)
    t1, t2 = spec["targets"], spec["targets2"]
    moved = False
    for k in range(1, j + n + 2):
        s.update(dates[k])
        if s.value <= 0 or s.bankrupt:
            raise Discard("insolvent")
        s.temp = {}
        if k == 1:
            s.temp = {"weights": dict(t1)}
            if spec["cash1"] is not None:
                s.temp["cash"] = spec["cash1"]
        elif k == j + 1:
            s.temp = {"weights": dict(t2)}
        cur = {t: (s.children[t].weight if t in s.children else 0.0) for t in t2}
        pos_before = {c: ch.position for c, ch in s.children.items()}
        try:
            algo(s)
        except Exception as e:
            raise Violation("RebalanceOverTime raised %s: %s" % (type(e).__name__, str(e)[:150]), signature="c06:rot-raises")
        if k <= j:
            continue  # the first transition is the plain over_time sub-check's business
        step = k - j  # 1..n within the second transition
        if step <= n:
            left = n - step + 1
            for t, w in t2.items():
                exp = cur[t] + (w - cur[t]) / left
                got = s.children[t].weight if t in s.children else 0.0
                if abs(got - exp) > 1e-9:
                    raise Violation(
                        "RebalanceOverTime(%d) re-armed after %d steps (first arming: %s, cash %s): step %d towards %s leaves %s at %r, expected %r" % (n, j, t1, spec["cash1"], step, t2, t, got, exp),
                        signature="c06:rot-rearm-step",
                    )
                if abs(w - cur[t]) > 1e-9:
                    moved = True
            if step == n:
                for c, ch in s.children.items():
                    if c not in t2 and ch.position != 0:
                        raise Violation("RebalanceOverTime re-armed: %s is not a target any more but still holds %r" % (c, ch.position), signature="c06:rot-rearm-open")
                got_cash = s.capital / s.value
                exp_cash = 1.0 - sum(t2.values())
                if abs(got_cash - exp_cash) > 1e-9:
                    raise Violation("RebalanceOverTime re-armed: cash fraction after the last step is %r, expected %r" % (got_cash, exp_cash), signature="c06:rot-rearm-cash")
        else:
            for c, ch in s.children.items():
                if ch.position != pos_before.get(c, 0.0):
                    raise Violation("RebalanceOverTime kept trading after the re-armed transition had finished", signature="c06:rot-extra")
    return {"nontrivial": moved, "labels": ["n=%d" % n, "rearm_after=%d" % j] + (["cash_on_first_arming"] if spec["cash1"] else [])}


SUBS = {"rebalance": case_rebalance, "over_time": case_over_time, "over_time_rearm": case_over_time_rearm}
STRATS = {"rebalance": rebalance_spec, "over_time": over_time_spec, "over_time_rearm": rearm_spec}


def _fi_spec():
    from . import c17

    return c17.run_spec()


def case_fi_rebalance(ctx, spec):
    """Rebalance on fixed-income books (weights are fractions of notional there): C17's generator and its probe right after Rebalance;
    only the target clause is judged here (notional of every target == weight x notional base, nested books scaled as a whole), the
    rest of that check (coupons, carry, index) is C17's business"""
    from . import c17

    try:
        res = c17.case_run(ctx, spec)
    except Violation as v:
        if str(getattr(v, "signature", "")).startswith("c17:target-notional") or str(getattr(v, "signature", "")).startswith("c17:setnotional"):
            raise
        raise Discard("a different clause of C17 fails (C17's business)")
    return {"nontrivial": bool(res and res.get("nontrivial")), "labels": ["fixed_income_book"] + (["nested"] if spec.get("nested") else [])}


SUBS["fi_rebalance"] = case_fi_rebalance
STRATS["fi_rebalance"] = _fi_spec


def shard(ctx):
    run_sub(ctx, "rebalance", rebalance_spec(), lambda s: case_rebalance(ctx, s), ctx.n(4000, 60000))
    run_sub(ctx, "over_time", over_time_spec(), lambda s: case_over_time(ctx, s), ctx.n(1000, 15000))
    run_sub(ctx, "over_time_rearm", rearm_spec(), lambda s: case_over_time_rearm(ctx, s), ctx.n(600, 9000))
    run_sub(ctx, "fi_rebalance", _fi_spec(), lambda s: case_fi_rebalance(ctx, s), ctx.n(800, 10000))
