"""C12 Calendar and counting schedulers fire exactly on their boundaries."""
import datetime as dt

import numpy as np
import pandas as pd
from hypothesis import strategies as st

from .. import gen, interp
from ..harness import Discard, Violation, run_sub, spec_hash

RULE = (
    "compare (enumerated): compare_dates of RunDaily/Weekly/Monthly/Quarterly/Yearly for ordered pairs of calendar days in 1999-01-01..2040-12-31 with gap 1..400 days against an "
    "independent datetime-only oracle (date, ISO (year, week), (year, month), (year, quarter), year); thorough = every pair (exhaustive within the bound), quick = every pair straddling "
    "a year end +-10 days plus a strided sample; plus intraday pairs around midnight. call (generated): RunPeriod.__call__ through a Backtest-built index (synthetic row included) for random "
    "indices (any spacing, intraday, year boundaries) and all 8 flag combinations: False on the synthetic row and outside the data, first/last date governed by their flags, otherwise the "
    "oracle on (now, previous|next). counting (generated): RunOnce/RunOnDate/RunAfterDate/RunAfterDays/RunEveryNPeriods against 5-line references on generated call sequences. "
    "combined (generated): 2-4 schedulers (calendar with flags, RunOnDate, RunAfterDate, counting ones, Not of one) joined by Or, or placed one after the other in a stack, inside a real Backtest with a recording algo behind the gate: the stack passes the gate exactly on the union (intersection) of the dates each member fires on when called once per date. "
    "non-trivial = the index contains a boundary of the tested kind (call) / the pair lies in different periods (compare). distinct = distinct cases."
)
ASSUMPTIONS = ["first and last dates are governed by their flags only (pinned by the repository's test_run_period)", "week = ISO week (what pandas' Timestamp.week returns)"]
ALGOS = ["RunDaily", "RunWeekly", "RunMonthly", "RunQuarterly", "RunYearly"]


def key(kind, d):
    """period key of a datetime, computed with the standard library only"""
    if kind == "RunDaily":
        return (d.year, d.month, d.day)
    if kind == "RunWeekly":
        iso = d.isocalendar()
        return (iso[0], iso[1])
    if kind == "RunMonthly":
        return (d.year, d.month)
    if kind == "RunQuarterly":
        return (d.year, (d.month - 1) // 3)
    return (d.year,)


# ---- enumerated comparator table -----------------------------------------------------------
D0 = dt.date(1999, 1, 1)
D1 = dt.date(2040, 12, 31)
MAXGAP = 400


def exhaustive_jobs(tier, seed):
    years = list(range(1999, 2041))
    return [{"year": y, "tier": tier, "seed": seed} for y in years]


def exhaustive(ctx, payload):
    bt = ctx.bt
    y = payload["year"]
    tier = payload["tier"]
    algos = {k: getattr(bt.algos, k)() for k in ALGOS}
    start = dt.date(y, 1, 1)
    end = dt.date(y, 12, 31)
    ndays = (end - start).days + 1
    # timestamps for [start, end + MAXGAP]
    days = [start + dt.timedelta(days=i) for i in range(ndays + MAXGAP)]
    days = [d for d in days if d <= D1 + dt.timedelta(days=0)]
    ts = [pd.Timestamp(d) for d in days]
    keys = {k: [key(k, d) for d in days] for k in ALGOS}
    n_pairs = 0
    n_nontrivial = 0
    stride = 1
    st_ = ctx.stats
    for i in range(ndays):
        if i >= len(days):
            break
        for g in range(1, MAXGAP + 1):
            j = i + g
            if j >= len(days):
                break
            if tier == "quick":
                # all pairs straddling a year end within +-10 days, plus a stride sample
                near = (days[i].month == 12 and days[i].day >= 21 and g <= 20) or (days[j].month == 1 and days[j].day <= 10 and g <= 20) or (g >= 355 and g <= 375)
                if not near and ((i * 401 + g + payload["seed"]) % 53 != 0):
                    continue
            for k in ALGOS:
                exp = keys[k][i] != keys[k][j]
                for a, b in ((j, i), (i, j)):  # now later than other (start-of-period mode) and now earlier (end-of-period mode)
                    got = bool(algos[k].compare_dates(ts[a], ts[b]))
                    n_pairs += 1
                    if exp:
                        n_nontrivial += 1
                    if got != exp:
                        spec = {"algo": k, "now": str(days[a]), "other": str(days[b])}
                        st_.failures.append({"sub": "compare", "message": "%s.compare_dates(%s, %s) = %s, expected %s (period keys %s vs %s)" % (k, days[a], days[b], got, exp, keys[k][a], keys[k][b]), "signature": "compare:" + k, "spec": spec})
                        return {"pairs": n_pairs, "nontrivial": n_nontrivial, "year": y, "complete": False}
    # intraday pairs around midnight of a few days of this year
    for d in (dt.datetime(y, 1, 1), dt.datetime(y, 6, 30), dt.datetime(y, 12, 31)):
        for da, db in ((d - dt.timedelta(minutes=1), d + dt.timedelta(minutes=1)), (d + dt.timedelta(hours=9), d + dt.timedelta(hours=16)), (d, d + dt.timedelta(hours=23, minutes=59))):
            for k in ALGOS:
                exp = key(k, da) != key(k, db)
                got = bool(algos[k].compare_dates(pd.Timestamp(db), pd.Timestamp(da)))
                n_pairs += 1
                if got != exp:
                    spec = {"algo": k, "now": da.isoformat(), "other": db.isoformat()}
                    st_.failures.append({"sub": "compare", "message": "%s.compare_dates(%s, %s) = %s, expected %s" % (k, db, da, got, exp), "signature": "compare:" + k, "spec": spec})
                    return {"pairs": n_pairs, "nontrivial": n_nontrivial, "year": y, "complete": False}
    st_.evaluations += n_pairs
    st_.per_sub["compare"] += n_pairs
    # distinct non-trivial pairs are counted exactly (each enumerated pair is distinct); hashes are not materialised for 10^7 pairs
    return {"pairs": n_pairs, "nontrivial": n_nontrivial, "year": y, "complete": tier == "thorough"}


def exhaustive_summary(results):
    return {
        "pairs_evaluated": sum(r["pairs"] for r in results),
        "pairs_in_different_periods": sum(r["nontrivial"] for r in results),
        "years": len(results),
        "complete": all(r.get("complete") for r in results),
        "bound": "all ordered day pairs 1999-01-01..2040-12-31 with gap 1..400 days, both argument orders, 5 comparators (thorough tier only)",
    }


def case_compare(ctx, spec):
    bt = ctx.bt
    a = getattr(bt.algos, spec["algo"])()
    now = dt.datetime.fromisoformat(spec["now"])
    other = dt.datetime.fromisoformat(spec["other"])
    exp = key(spec["algo"], now) != key(spec["algo"], other)
    got = bool(a.compare_dates(pd.Timestamp(now), pd.Timestamp(other)))
    if got != exp:
        raise Violation("%s.compare_dates(%s, %s) = %s, expected %s" % (spec["algo"], now, other, got, exp), signature="compare:" + spec["algo"])
    return {"nontrivial": exp}


# ---- generated: __call__ through a real backtest index ---------------------------------------
class FakeData(object):
    def __init__(self, index):
        self.index = index


class FakeTarget(object):
    def __init__(self, index, now):
        self.data = FakeData(index)
        self.now = now


def case_call(ctx, spec):
    bt = ctx.bt
    ds = spec["dates"]
    kind = spec["algo"]
    flags = spec["flags"]
    data = interp.mk_frame(ds, {"a": [100.0 + i for i in range(len(ds))]})
    if spec.get("tz"):
        # exchange-local stamps: the periods are those of the wall clock the stamps show, whatever their UTC instants are
        loc = data.index.tz_localize(spec["tz"], nonexistent="shift_forward", ambiguous=True)
        # wall-clock stamps inside a daylight-saving switch have no unique instant: such an index stays naive (increasing unique dates are
        # the well-formed input)
        if loc.is_unique and loc.is_monotonic_increasing and all(a_.replace(tzinfo=None) == b_ for a_, b_ in zip(loc.to_pydatetime(), data.index.to_pydatetime())):
            data.index = loc
    algo = getattr(bt.algos, kind)(**flags)
    s = bt.Strategy("s", [algo])
    b = bt.Backtest(s, data, progress_bar=False)
    strat = b.strategy
    strat.setup(b.data)
    idx = b.data.index
    real = [dt.datetime.fromisoformat(d) for d in ds]
    n_boundary = 0
    for i, d in enumerate(idx):
        strat.update(d)
        got = bool(strat.stack.algos[0](strat))
        if i == 0:
            exp = False
        elif i == 1:
            exp = bool(flags.get("run_on_first_date", True))
        elif i == len(idx) - 1:
            exp = bool(flags.get("run_on_last_date", False))
        else:
            other = real[i - 1 + 1] if flags.get("run_on_end_of_period", False) else real[i - 1 - 1]
            # real[] is offset by one against idx (synthetic row at 0)
            exp = key(kind, real[i - 1]) != key(kind, other)
            if exp:
                n_boundary += 1
        if got != exp:
            raise Violation("%s(%s) on index position %d (%s) of %s returned %s, expected %s" % (kind, flags, i, d, [str(x) for x in idx], got, exp), signature="call:%s:%s" % (kind, "synthetic" if i == 0 else "first" if i == 1 else "last" if i == len(idx) - 1 else "middle"))
    # a date outside the data never fires; now=None never fires
    outside = idx[-1] + pd.DateOffset(days=3)
    a2 = getattr(bt.algos, kind)(**flags)
    if a2(FakeTarget(idx, outside)) or a2(FakeTarget(idx, None)):
        raise Violation("%s fired on a date outside the data" % kind, signature="call:outside")
    # nor does a date that is not a row of the data: before the start, and inside every gap between two rows (weekends, holidays,
    # missing stamps) - whatever period boundary such a date may be
    n_gap = 0
    rows = set(idx)
    probes = [idx[0] - pd.DateOffset(days=2), idx[1] - pd.DateOffset(hours=5)]
    for a_, b_ in zip(idx[1:-1], idx[2:]):
        for cand in (a_ + (b_ - a_) / 2, a_ + pd.DateOffset(days=1), b_ - pd.DateOffset(days=1), b_ - pd.DateOffset(minutes=1)):
            if a_ < cand < b_ and cand not in rows:
                probes.append(cand)
    for cand in probes:
        if cand in rows:
            continue
        n_gap += 1
        if a2(FakeTarget(idx, cand)):
            raise Violation("%s(%s) fired on %s, which is not a date of the data %s" % (kind, flags, cand, [str(x) for x in idx]), signature="call:not-a-row")
    labs = [kind, "eop" if flags.get("run_on_end_of_period") else "sop"] + (["gap_dates_probed"] if n_gap > 2 else []) + (["tz_aware_index"] if idx.tz is not None else [])
    isoweeks = {r.isocalendar()[1] for r in real}
    if 53 in isoweeks or (1 in isoweeks and any(r.month == 12 for r in real)):
        labs.append("iso-week-53/1-straddle")
    return {"nontrivial": n_boundary > 0, "labels": labs}


@st.composite
def call_spec(draw):
    ds = draw(gen.dates(1, 30, kinds=("bday", "daily", "mixed", "sparse", "intraday")))
    return {"dates": ds, "algo": draw(st.sampled_from(ALGOS)), "flags": draw(gen.FLAGS), "tz": draw(st.sampled_from([None, None, "Europe/Berlin", "Asia/Tokyo", "America/New_York"]))}


# ---- generated: counting / date schedulers ------------------------------------------------------
def case_counting(ctx, spec):
    bt = ctx.bt
    A = bt.algos
    kind = spec["algo"]
    idx = interp.mk_dates(spec["dates"])
    calls = spec["calls"]  # indices into dates, non-decreasing; repeated index = repeated call on the same date
    p = spec["params"]
    if kind == "RunOnce":
        algo = A.RunOnce()
    elif kind == "RunOnDate":
        algo = A.RunOnDate(*[spec["dates"][i] for i in p["on"]])
    elif kind == "RunAfterDate":
        algo = A.RunAfterDate(p["date"])
    elif kind == "RunAfterDays":
        algo = A.RunAfterDays(p["days"])
    else:
        algo = A.RunEveryNPeriods(p["n"], p["offset"])
    distinct_seen = []
    fired = 0
    for c, i in enumerate(calls):
        now = idx[i]
        repeat = bool(distinct_seen) and distinct_seen[-1] == i
        if not repeat:
            distinct_seen.append(i)
        k = len(distinct_seen) - 1  # number of distinct dates before this one
        got = bool(algo(FakeTarget(idx, now)))
        if kind == "RunOnce":
            exp = c == 0
        elif kind == "RunOnDate":
            exp = i in p["on"]
        elif kind == "RunAfterDate":
            exp = now > pd.Timestamp(p["date"])
        elif kind == "RunAfterDays":
            exp = c >= p["days"]
        else:
            exp = (not repeat) and k >= p["offset"] and (k - p["offset"]) % p["n"] == 0
        fired += int(exp)
        if got != exp:
            raise Violation("%s(%s) call #%d on %s (distinct date #%d%s) returned %s, expected %s" % (kind, p, c, now, k, ", repeated call" if repeat else "", got, exp), signature="counting:" + kind)
    return {"nontrivial": 0 < fired < len(calls), "labels": [kind]}


@st.composite
def counting_spec(draw):
    ds = draw(gen.dates(2, 25))
    n = len(ds)
    kind = draw(st.sampled_from(["RunOnce", "RunOnDate", "RunAfterDate", "RunAfterDays", "RunEveryNPeriods"]))
    if kind == "RunEveryNPeriods":
        # repeated calls on the same date are part of its contract
        calls = sorted(draw(st.lists(st.integers(0, n - 1), min_size=1, max_size=2 * n)))
        nn = draw(st.integers(1, 6))
        params = {"n": nn, "offset": draw(st.one_of(st.integers(0, nn - 1), st.integers(0, 3 * nn)))}  # an offset of a full cycle or more delays the first run further
    else:
        calls = list(range(n)) if draw(st.booleans()) else sorted(draw(st.lists(st.integers(0, n - 1), min_size=1, max_size=n, unique=True)))
        if kind == "RunOnDate":
            params = {"on": sorted(draw(st.lists(st.integers(0, n - 1), min_size=0, max_size=n, unique=True)))}
        elif kind == "RunAfterDate":
            d = dt.datetime.fromisoformat(draw(st.sampled_from(ds))) + dt.timedelta(days=draw(st.sampled_from([0, 0, -1, 1, 400, -400])))
            params = {"date": d.isoformat()}
        elif kind == "RunAfterDays":
            params = {"days": draw(st.integers(0, n + 2))}
        else:
            params = {}
    return {"dates": ds, "algo": kind, "calls": calls, "params": params}


# ---- generated: schedulers combined through Or / Not / nested stacks inside a real backtest ----------
def ref_member(m, real):
    """firing pattern of one scheduler over the real dates of a backtest (one call per date, in date order)"""
    kind, p = m["algo"], m.get("params", {})
    n = len(real)
    if kind == "Not":
        return [not x for x in ref_member(m["of"], real)]
    if kind in ALGOS:
        out = []
        for j in range(n):
            if j == 0:
                out.append(bool(p.get("run_on_first_date", True)))
            elif j == n - 1:
                out.append(bool(p.get("run_on_last_date", False)))
            else:
                other = real[j + 1] if p.get("run_on_end_of_period", False) else real[j - 1]
                out.append(key(kind, real[j]) != key(kind, other))
        return out
    if kind == "RunOnce":
        return [j == 0 for j in range(n)]
    if kind == "RunOnDate":
        return [j in p["on"] for j in range(n)]
    if kind == "RunAfterDate":
        return [pd.Timestamp(real[j]) > pd.Timestamp(p["date"]) for j in range(n)]
    if kind == "RunAfterDays":
        return [j >= p["days"] for j in range(n)]
    if kind == "RunEveryNPeriods":
        return [j >= p["offset"] and (j - p["offset"]) % p["n"] == 0 for j in range(n)]
    raise ValueError(kind)


def mk_member(A, m, ds):
    kind, p = m["algo"], m.get("params", {})
    if kind == "Not":
        return A.Not(mk_member(A, m["of"], ds))
    if kind in ALGOS:
        return getattr(A, kind)(**p)
    if kind == "RunOnce":
        return A.RunOnce()
    if kind == "RunOnDate":
        return A.RunOnDate(*[ds[i] for i in p["on"]])
    if kind == "RunAfterDate":
        return A.RunAfterDate(p["date"])
    if kind == "RunAfterDays":
        return A.RunAfterDays(p["days"])
    return A.RunEveryNPeriods(p["n"], p["offset"])


def case_combined(ctx, spec):
    """Every member of an Or is a scheduler in its own right: it must fire exactly on its own dates whatever the other members
    answer, so the combination passes the stack exactly on the union of the members' dates (Not: the complement)."""
    bt = ctx.bt
    A = bt.algos
    ds = spec["dates"]
    real = [dt.datetime.fromisoformat(d) for d in ds]
    members = spec["members"]
    passed = []

    def rec(target):
        passed.append(target.now)
        return True

    built = [mk_member(A, m, ds) for m in members]
    gate = A.Or(built) if spec["combine"] == "or" else None
    if spec["combine"] == "or":
        stack = [gate, rec]
        refs = [ref_member(m, real) for m in members]
        exp = [any(r[j] for r in refs) for j in range(len(real))]
    else:  # "and": consecutive algos of one stack; a later member is only called while all earlier ones passed -> only stateless members follow
        stack = built + [rec]
        refs = [ref_member(m, real) for m in members]
        exp = [all(r[j] for r in refs) for j in range(len(real))]
    data = interp.mk_frame(ds, {"a": [100.0 + i for i in range(len(ds))]})
    b = bt.Backtest(bt.Strategy("s", stack), data, progress_bar=False)
    b.run()
    got = [pd.Timestamp(d) in set(passed) for d in real]
    if len(passed) != len(set(passed)):
        raise Violation("the stack passed the gate twice on one date: %s" % passed, signature="combined:twice")
    if got != exp:
        j = [a != b_ for a, b_ in zip(got, exp)].index(True)
        raise Violation(
            "%s of %s over %s: the stack %s the gate on %s (date #%d), expected %s; members alone fire on %s" % (spec["combine"], members, ds, "passed" if got[j] else "did not pass", ds[j], j, exp[j], [[k for k, x in enumerate(r) if x] for r in refs]),
            signature="combined:%s" % spec["combine"],
        )
    counting = [m["algo"] for m in members if m["algo"] in ("RunOnce", "RunAfterDays", "RunEveryNPeriods")]
    # non-trivial: a counting member sits behind a member that fires on some date before the counting member's own pattern is exhausted
    nt = False
    if spec["combine"] == "or":
        for k, m in enumerate(members):
            if m["algo"] in ("RunOnce", "RunAfterDays", "RunEveryNPeriods") and any(any(refs[q][j] for q in range(k)) for j in range(len(real))):
                nt = True
    else:
        nt = 0 < sum(exp) < len(exp)
    return {"nontrivial": nt, "labels": [spec["combine"]] + sorted(set(counting)) + (["not"] if any(m["algo"] == "Not" for m in members) else [])}


@st.composite
def member_spec(draw, n, stateless=False, depth=0):
    kinds = list(ALGOS) + ["RunOnDate", "RunAfterDate"] + ([] if stateless else ["RunOnce", "RunAfterDays", "RunEveryNPeriods", "RunAfterDays", "RunEveryNPeriods"]) + (["Not"] if depth == 0 else [])
    kind = draw(st.sampled_from(kinds))
    if kind == "Not":
        return {"algo": "Not", "of": draw(member_spec(n, stateless=stateless, depth=1))}
    if kind in ALGOS:
        return {"algo": kind, "params": draw(gen.FLAGS)}
    if kind == "RunOnce":
        return {"algo": kind}
    if kind == "RunOnDate":
        return {"algo": kind, "params": {"on": sorted(draw(st.lists(st.integers(0, n - 1), min_size=0, max_size=min(n, 4), unique=True)))}}
    if kind == "RunAfterDate":
        return {"algo": kind, "params": {"date": None}}  # filled by the caller
    if kind == "RunAfterDays":
        return {"algo": kind, "params": {"days": draw(st.integers(0, n))}}
    nn = draw(st.integers(1, 5))
    return {"algo": kind, "params": {"n": nn, "offset": draw(st.integers(0, 2 * nn))}}


@st.composite
def combined_spec(draw):
    ds = draw(gen.dates(3, 24, kinds=("bday", "daily", "mixed", "sparse")))
    n = len(ds)
    combine = draw(st.sampled_from(["or", "or", "or", "and"]))
    k = draw(st.integers(2, 4))
    if combine == "or":
        members = [draw(member_spec(n)) for _ in range(k)]
    else:
        members = [draw(member_spec(n))] + [draw(member_spec(n, stateless=True)) for _ in range(k - 1)]

    def fill(m):
        if m["algo"] == "Not":
            fill(m["of"])
        elif m["algo"] == "RunAfterDate":
            m["params"]["date"] = (dt.datetime.fromisoformat(draw(st.sampled_from(ds))) + dt.timedelta(days=draw(st.sampled_from([0, 0, -1, 1])))).isoformat()

    for m in members:
        fill(m)
    return {"dates": ds, "combine": combine, "members": members}


SUBS = {"compare": case_compare, "call": case_call, "counting": case_counting, "combined": case_combined}
STRATS = {"call": call_spec, "counting": counting_spec, "combined": combined_spec}


def shard(ctx):
    run_sub(ctx, "call", call_spec(), lambda s: case_call(ctx, s), ctx.n(3000, 60000))
    run_sub(ctx, "counting", counting_spec(), lambda s: case_counting(ctx, s), ctx.n(3000, 60000))
    run_sub(ctx, "combined", combined_spec(), lambda s: case_combined(ctx, s), ctx.n(1600, 32000))
