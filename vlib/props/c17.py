"""C17 Fixed-income strategies account by notional, coupons and carry."""
import contextlib
import io

import numpy as np
import pandas as pd
from hypothesis import strategies as st

from .. import gen, interp
from ..harness import Discard, Violation, bt_frame_signature, run_sub
from . import c02, c07

RULE = (
    "run: generated fixed-income roots (optionally with a fixed-income sub-strategy) over generated mixes of FixedIncomeSecurity, CouponPayingSecurity, HedgeSecurity, "
    "CouponPayingHedgeSecurity and Security, coupon tables (irregular, zero, negative), asymmetric long/short holding-cost tables, notional schedules for SetNotional, long and short "
    "targets, spreads and commissions, multipliers. Oracle recomputed from the recorded series on every date: notional per security type (par / market value / zero), strategy notional = "
    "sum |child notional|, weights = notional / parent notional, targets' notionals right after Rebalance == w x N (probe placed after Rebalance), coupons[t] == position[t] x coupon[t], "
    "holding_costs[t] == |position[t]| x cost of the held side, both arriving in the parent's cash on t+1 (cash ledger), value attribution incl. carry, additive index "
    "price[t] == price[t-1] + 100 x (dV - flows) / notional (previous, else current), and the renormalised result. non-trivial = a coupon-paying position held over at least two "
    "dates with a non-zero coupon or cost. distinct = distinct spec hashes."
)
ASSUMPTIONS = ["coupons and costs are finite wherever a position is open (a NaN coupon on an open position is ill-formed input, C10)", "tolerance 1e-9 relative to notional + 1e-6"]
BUILDS = {"quick": ["py"], "thorough": ["py", "cy"]}

KINDS = ["FixedIncomeSecurity", "CouponPayingSecurity", "CouponPayingSecurity", "HedgeSecurity", "CouponPayingHedgeSecurity", "Security"]


@st.composite
def run_spec(draw):
    ds = draw(gen.dates(3, 12, kinds=("bday", "daily", "mixed")))
    n = len(ds)
    nt = draw(st.integers(1, 5))
    tickers = gen.TICKERS[:nt]
    pr = {}
    for t in tickers:
        pr[t] = draw(gen.price_path(n, vol=draw(st.sampled_from([0.002, 0.01, 0.03])), p0=draw(st.sampled_from([100.0, 99.5, 101.25, 1.0, 95.0])), decimals=4))
    kinds = {t: draw(st.sampled_from(KINDS)) for t in tickers}
    mult = {t: draw(st.sampled_from([1, 1, 1, 10])) for t in tickers}
    coup = {t: [draw(st.sampled_from([0.0, 0.0, 0.01, 0.025, -0.005, 0.5])) for _ in range(n)] for t in tickers}
    # rates may be negative: a short earning a rebate, a long funded at a negative rate
    cl = {t: [draw(st.sampled_from([0.0, 0.001, 0.01, -0.002])) for _ in range(n)] for t in tickers if draw(st.booleans())}
    cs = {t: [draw(st.sampled_from([0.0, 0.002, 0.02, -0.003, -0.01])) for _ in range(n)] for t in tickers if draw(st.booleans())}
    ks = draw(st.lists(st.sampled_from(tickers), min_size=1, max_size=nt, unique=True))
    raw = [draw(st.integers(1, 6)) for _ in ks]
    w = {k: round(r / float(sum(raw)) * (1 if draw(st.integers(0, 3)) else -1), 4) for k, r in zip(ks, raw)}
    # a zero notional schedule entry closes everything; the carry of the last date then arrives on a zero base, which bt refuses by design (C10) - keep it rare
    notl = [draw(st.sampled_from([1e6, 1e6, 2e6, 5e5] + ([0.0] if draw(st.integers(0, 9)) == 0 else []))) if draw(st.integers(0, 3)) else None for _ in range(n)]
    if all(x is None or x == 0 for x in notl):
        notl[0] = 1e6
    # at least one target carries notional (hedge securities have none by definition)
    if all(kinds[k] in ("HedgeSecurity", "CouponPayingHedgeSecurity") for k in ks):
        kinds[ks[0]] = draw(st.sampled_from(["FixedIncomeSecurity", "CouponPayingSecurity", "Security"]))
    gate = draw(st.sampled_from([[], [], [["RunDaily", {}]], [["RunWeekly", {}]], [["RunOnce", {}]]]))
    algos = [["Probe", {"key": "c17pre", "run_always": True}]] + gate + [["WeighSpecified", {"weights": w}], ["SetNotional", {"frame": "notl"}], ["Rebalance", {}], ["Probe", {"key": "c17post"}]]
    if draw(st.integers(0, 3)) == 0:
        algos.insert(1, ["CapitalFlow", {"amount": draw(st.sampled_from([50000.0, -20000.0, 1234.5]))}])
    children = [dict({"sec": t, "kind": kinds[t], "mult": mult[t]}, **({"lazy": True} if draw(st.integers(0, 3)) == 0 else {})) for t in tickers]
    if draw(st.integers(0, 3)) == 0:
        # a second step on the same date: the tree is read in between (probe) and then rebalanced again to other weights
        ks2 = draw(st.lists(st.sampled_from(tickers), min_size=1, max_size=nt, unique=True))
        raw2 = [draw(st.integers(1, 6)) for _ in ks2]
        w_second = {k: round(r / float(sum(raw2)), 4) for k, r in zip(ks2, raw2)}
        algos = algos + [["WeighSpecified", {"weights": w_second}], ["Rebalance", {}]]
    spec = {
        "dates": ds,
        "prices": pr,
        "rng_seed": 0,
        "frames": {"notl": {"kind": "series", "values": notl}, "coupons": {"kind": "frame", "cols": coup}},
        "additional": ["notl", "coupons"],
        "integer_positions": draw(st.booleans()),
        "initial_capital": draw(st.sampled_from([0.0, 1e6, 1e4])),
        "fee": draw(gen.fee_spec(0.5, kinds=("none", "none", "fixed", "prop"))),
        "kinds": kinds,
        "weights": w,
    }
    if cl:
        spec["frames"]["cost_long"] = {"kind": "frame", "cols": cl}
        spec["additional"].append("cost_long")
    if cs:
        spec["frames"]["cost_short"] = {"kind": "frame", "cols": cs}
        spec["additional"].append("cost_short")
    bo = draw(st.sampled_from([None, None, 0.02, 0.1]))
    if bo is not None:
        # spreads may be quoted for some securities only (the others trade at mid)
        spec["bidoffer"] = {t: [bo] * n for t in tickers if draw(st.integers(0, 3)) != 0} or {tickers[0]: [bo] * n}
    nested = draw(st.integers(0, 2)) == 0
    if nested and nt >= 2:
        sub_t = tickers[: nt // 2]
        own_t = tickers[nt // 2 :]
        if draw(st.booleans()):
            for t in sub_t:
                if kinds[t] not in ("FixedIncomeSecurity", "CouponPayingSecurity"):
                    kinds[t] = draw(st.sampled_from(["FixedIncomeSecurity", "CouponPayingSecurity"]))
                    for c in children:
                        if c["sec"] == t:
                            c["kind"] = kinds[t]
        sw = {t: round(1.0 / len(sub_t), 4) for t in sub_t}
        sub_gate = ["RunDaily", {}]
        w2 = {k: v for k, v in w.items() if k in own_t}
        if all(kinds[t] in ("FixedIncomeSecurity", "CouponPayingSecurity") for t in sub_t) and draw(st.integers(0, 2)) != 0:
            # the parent targets the nested book as a whole: it builds a long/short book once, afterwards the parent's Rebalance scales it
            # (notional pushed down in proportion to the children's signed weights) to weight x notional
            sw = {t: round(v * (-1 if draw(st.integers(0, 2)) == 0 else 1), 4) for t, v in sw.items()}
            sub_gate = ["RunOnce", {}]
            w2 = {k: round(v * 0.5, 4) for k, v in w2.items()}
            w2["sub"] = draw(st.sampled_from([0.5, 0.25, 0.4]))
            spec["target_sub"] = True
        sub = {"name": "sub", "kind": "FixedIncomeStrategy", "algos": [sub_gate, ["WeighSpecified", {"weights": sw}], ["SetNotional", {"frame": "notl"}], ["Rebalance", {}]], "children": [c for c in children if c["sec"] in sub_t]}
        algos = [["Probe", {"key": "c17pre", "run_always": True}]] + gate + [["WeighSpecified", {"weights": w2}], ["SetNotional", {"frame": "notl"}], ["Rebalance", {}], ["Probe", {"key": "c17post"}]]
        spec["weights"] = w2
        spec["tree"] = {"name": "root", "kind": "FixedIncomeStrategy", "algos": algos, "children": [sub] + [c for c in children if c["sec"] in own_t]}
        spec["nested"] = True
    else:
        spec["tree"] = {"name": "root", "kind": "FixedIncomeStrategy", "algos": algos, "children": children}
    if not spec.get("nested") and draw(st.integers(0, 3)) == 0:
        # an overlay algo trades one of the targets first (default flags: the tree is only marked stale) and nothing reads the tree before
        # SetNotional + Rebalance size every target - each still ends on weight x notional
        t_ = draw(st.sampled_from(sorted(spec["weights"])))
        i_ = [a[0] for a in spec["tree"]["algos"]].index("WeighSpecified")
        spec["tree"]["algos"].insert(i_, ["TradeNoUpdate", {"child": t_, "frac": 0.0, "units": draw(st.sampled_from([1000.0, -2500.0, 100000.0]))}])
        spec["overlay_before_rebalance"] = True
    if not spec.get("nested") and n >= 4 and draw(st.integers(0, 2)) == 0:
        # the notional schedule is only published on some dates (rebalance dates, or from a later start): it is read by date, and the
        # stack stops on a date the schedule does not have
        keep = sorted(draw(st.lists(st.integers(0, n - 1), min_size=1, max_size=n - 1, unique=True)))
        fr = spec["frames"]["notl"]
        fr["dates"] = [ds[i] for i in keep]
        fr["values"] = [fr["values"][i] if fr["values"][i] is not None else 1e6 for i in keep]
        spec["sparse_notional_schedule"] = True
    return spec


def case_run(ctx, spec):
    bt = ctx.bt
    post = []
    holder = {}

    def cb_post(algo, target):
        if target is holder.get("root"):
            N = target.temp.get("notional_value")
            post.append((target.now, N, {c: ch.notional_value for c, ch in target.children.items()}, {c: ch.weight for c, ch in target.children.items()}, target.notional_value, dict(holder.get("pre_notl") or {})))

    interp.Probe.registry["c17post"] = cb_post
    def cb_pre(algo, target):
        # balance sheet at the start of the stack, right after the date's first update (coupons just swept into cash)
        if target is holder.get("root"):
            holder["pre_notl"] = {c: ch.notional_value for c, ch in target.children.items()}
            v = target.value
            tot = target.capital + sum(ch.value for ch in target.children.values())
            if abs(v - tot) > 1e-9 * max(abs(v), 1e6) + 1e-6:
                raise Violation("on %s before the stack runs: value %r != cash %r + children %r" % (target.now, v, target.capital, tot - target.capital), signature="c17:value-at-open")

    interp.Probe.registry["c17pre"] = cb_pre
    base_spec = {k: v for k, v in spec.items() if k not in ("kinds", "weights", "nested", "target_sub")}
    try:
        b = interp.mk_backtest(bt, base_spec)
        holder["root"] = b.strategy
        with contextlib.redirect_stdout(io.StringIO()):
            try:
                b.run()
            except ZeroDivisionError:
                raise Discard("pnl on zero notional (ill-formed, C10)")
            except Violation:
                raise
            except Exception as e:
                raise Violation("fixed-income backtest raised %s: %s" % (type(e).__name__, str(e)[:200]), signature="c17:raises:" + bt_frame_signature(e))
    finally:
        interp.Probe.registry.pop("c17post", None)
        interp.Probe.registry.pop("c17pre", None)
    s = b.strategy
    scale = 1e6
    n = len(s.values)
    secs = [m for m in s.members if isinstance(m, bt.core.SecurityBase)]
    strats = [m for m in s.members if isinstance(m, bt.core.StrategyBase)]
    coup_held = False
    # notional per type, coupons, holding costs
    for m in secs:
        pos = np.asarray(m.positions, dtype=float)
        val = np.asarray(m.values, dtype=float)
        nv = np.asarray(m.notional_values, dtype=float)
        if isinstance(m, (bt.core.HedgeSecurity, bt.core.CouponPayingHedgeSecurity)):
            exp = np.zeros(n)
        elif isinstance(m, bt.core.FixedIncomeSecurity):
            exp = pos
        else:
            exp = val
        if not np.allclose(nv, exp, rtol=1e-12, atol=1e-9):
            i = int(np.argmax(~np.isclose(nv, exp, rtol=1e-12, atol=1e-9)))
            raise Violation("%s (%s): notional value row %d is %r, expected %r (position %r, value %r)" % (m.full_name, type(m).__name__, i, nv[i], exp[i], pos[i], val[i]), signature="c17:notional:" + type(m).__name__)
        if isinstance(m, bt.core.CouponPayingSecurity):
            c = np.array([0.0] + [x for x in spec["frames"]["coupons"]["cols"][m.name]], dtype=float)
            got = np.asarray(m.coupons, dtype=float)
            expc = pos * c
            if not np.allclose(got, expc, rtol=1e-12, atol=1e-9):
                i = int(np.argmax(~np.isclose(got, expc, rtol=1e-12, atol=1e-9)))
                raise Violation("%s: coupon row %d is %r, expected position %r x coupon %r" % (m.full_name, i, got[i], pos[i], c[i]), signature="c17:coupon")
            hl = spec["frames"].get("cost_long", {}).get("cols", {}).get(m.name)
            hs = spec["frames"].get("cost_short", {}).get("cols", {}).get(m.name)
            hl = np.array([0.0] + (hl or [0.0] * (n - 1)), dtype=float)
            hs = np.array([0.0] + (hs or [0.0] * (n - 1)), dtype=float)
            exph = np.where(pos > 0, pos * hl, np.where(pos < 0, -pos * hs, 0.0))
            goth = np.asarray(m.holding_costs, dtype=float)
            if not np.allclose(goth, exph, rtol=1e-12, atol=1e-9):
                i = int(np.argmax(~np.isclose(goth, exph, rtol=1e-12, atol=1e-9)))
                raise Violation("%s: holding cost row %d is %r, expected |position %r| x %s cost %r" % (m.full_name, i, goth[i], pos[i], "long" if pos[i] > 0 else "short", (hl if pos[i] > 0 else hs)[i]), signature="c17:holding-cost")
            if ((pos[:-1] != 0) & ((c[:-1] != 0) | (exph[:-1] != 0))).sum() >= 1 and (pos != 0).sum() >= 2:
                coup_held = True
    # strategy notional and weights
    for m in strats:
        tot = np.zeros(n)
        for c in m.children.values():
            tot += np.abs(np.asarray(c.notional_values, dtype=float))
        nv = np.asarray(m.notional_values, dtype=float)
        if not np.allclose(nv, tot, rtol=1e-12, atol=1e-6):
            i = int(np.argmax(~np.isclose(nv, tot, rtol=1e-12, atol=1e-6)))
            raise Violation("%s: notional value row %d is %r, expected sum of |child notionals| %r" % (m.full_name, i, nv[i], tot[i]), signature="c17:strategy-notional")
        for c in m.children.values():
            w = c.weight
            exp = c.notional_value / m.notional_value if abs(m.notional_value) > 1e-16 else 0.0
            if abs(w - exp) > 1e-9:
                raise Violation("%s: weight %r != notional %r / parent notional %r" % (c.full_name, w, c.notional_value, m.notional_value), signature="c17:weight")
    W = b.weights
    rn = np.asarray(s.notional_values, dtype=float)
    okr = np.abs(rn) > 1e-9
    for m in s.members:
        col = np.asarray(W[m.full_name], dtype=float)
        exp = np.asarray(m.notional_values, dtype=float) / rn
        if not np.allclose(col[okr], exp[okr], rtol=1e-12, atol=1e-12):
            raise Violation("reported weight of %s is not notional / root notional" % m.full_name, signature="c17:report-weights")
    # targets right after Rebalance
    sub_scaled = False
    sched = spec["frames"]["notl"]
    sched_by_date = {pd.Timestamp(d): v for d, v in zip(sched.get("dates", spec["dates"]), sched["values"])}
    for now, N, notls, ws, tot, pre in post:
        # what SetNotional hands to Rebalance is the schedule's entry dated today
        want = sched_by_date.get(pd.Timestamp(now), "absent")
        if want == "absent":
            raise Violation("the stack went past SetNotional on %s although the notional schedule has no entry for that date (dates %s)" % (now, sorted(str(d.date()) for d in sched_by_date)), signature="c17:setnotional-absent-date")
        if want is not None and not (N is not None and abs(float(N) - float(want)) <= 1e-9 * max(1.0, abs(want))):
            raise Violation("SetNotional handed %r to Rebalance on %s, the schedule says %r for that date" % (N, now, want), signature="c17:setnotional-by-date")
        if N is None or (isinstance(N, float) and np.isnan(N)):
            continue
        for k, w in spec["weights"].items():
            ch = s.children[k] if k in s.children else None
            if ch is not None and isinstance(ch, bt.core.StrategyBase):
                # a nested book that already holds positions is scaled as a whole to weight x notional (a flat one has no weights to spread by)
                if abs(pre.get(k, 0.0)) > 1e-9:
                    if abs(notls.get(k, 0.0) - w * N) > 1e-9 * max(abs(N), 1.0) + 1e-6:
                        raise Violation("after Rebalance on %s with notional %r: nested strategy %s (notional %r before) has notional %r, expected weight %r x %r = %r" % (now, N, k, pre.get(k), notls.get(k, 0.0), w, N, w * N), signature="c17:target-notional:substrategy")
                    if abs(pre.get(k, 0.0) - w * N) > 1e-6:
                        sub_scaled = True
                continue
            if ch is None:
                if abs(w * N) > 1e-9:
                    raise Violation("target %s never created" % k, signature="c17:target-missing")
                continue
            exact = isinstance(ch, bt.core.FixedIncomeSecurity) or isinstance(ch, (bt.core.HedgeSecurity,)) is False and (spec["fee"]["kind"] == "none" and not spec.get("bidoffer") and not spec["integer_positions"])
            if isinstance(ch, (bt.core.HedgeSecurity, bt.core.CouponPayingHedgeSecurity)):
                continue  # zero notional by definition: a notional target cannot be met, nothing is claimed
            if isinstance(ch, bt.core.FixedIncomeSecurity) or exact:
                if abs(notls.get(k, 0.0) - w * N) > 1e-9 * max(abs(N), 1.0) + 1e-6:
                    raise Violation("after Rebalance on %s with notional %r: %s (%s) has notional %r, expected weight %r x %r = %r" % (now, N, k, type(ch).__name__, notls.get(k, 0.0), w, N, w * N), signature="c17:target-notional:" + type(ch).__name__)
    # cash ledger incl. carry, value attribution incl. carry
    c07.ledger_from_records(bt, s, scale, tag="fi")
    c02.attribution(bt, s, scale, tag="fi")
    # additive index
    P = np.asarray(s.prices, dtype=float)
    V = np.asarray(s.values, dtype=float)
    F = np.asarray(s.flows, dtype=float)
    if abs(P[0] - 100.0) > 1e-12:
        raise Violation("fixed-income index starts at %r" % P[0], signature="c17:start")
    for t in range(1, n):
        pnl = V[t] - V[t - 1] - F[t]
        basen = rn[t - 1] if abs(rn[t - 1]) > 1e-16 else rn[t]
        if abs(basen) <= 1e-16:
            exp = P[t - 1]
        else:
            exp = P[t - 1] + 100.0 * pnl / basen
        if abs(P[t] - exp) > 1e-9 * max(abs(exp), 1.0):
            raise Violation("index row %d is %r, expected %r = %r + 100 x pnl %r / notional %r" % (t, P[t], exp, P[t - 1], pnl, basen), signature="c17:index")
    # renormalised result
    if np.abs(rn).max() > 0:
        v = float(np.abs(rn).max())
        try:
            rr = bt.backtest.RenormalizedFixedIncomeResult(v, b)
        except Exception as e:
            raise Violation("RenormalizedFixedIncomeResult raised %s: %s" % (type(e).__name__, str(e)[:100]), signature="c17:renorm-raises")
        got = np.asarray(rr.prices[b.name], dtype=float)
        ret = np.concatenate([[0.0], np.diff(V) - F[1:]])
        exp = 100.0 * (1.0 + np.cumsum(ret / v))
        exp[0] = 100.0
        if not np.allclose(got, exp, rtol=1e-10, atol=1e-9):
            i = int(np.argmax(~np.isclose(got, exp, rtol=1e-10, atol=1e-9)))
            raise Violation("renormalised price row %d is %r, expected %r" % (i, got[i], exp[i]), signature="c17:renorm")
    if s.bankrupt:
        raise Violation("fixed-income root flagged bankrupt", signature="c17:bankrupt")
    labs = sorted(set(spec["kinds"].values())) + (["nested"] if spec.get("nested") else []) + (["nested_book_targeted"] if spec.get("target_sub") else []) + (["nested_book_scaled"] if sub_scaled else [])
    return {"nontrivial": coup_held, "labels": labs}


SUBS = {"run": case_run}
STRATS = {"run": run_spec}


def shard(ctx):
    run_sub(ctx, "run", run_spec(), lambda s: case_run(ctx, s), ctx.n(2000, 30000))
