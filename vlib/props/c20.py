"""C20 Risk sums over the tree, hedges neutralise it, matured positions close and roll."""
import contextlib
import io

import numpy as np
import pandas as pd
from hypothesis import strategies as st

from .. import gen, interp
from ..harness import Discard, Violation, bt_frame_signature, run_sub

RULE = (
    "risk: generated trees (depth 1-2, multipliers, shared tickers) holding generated positions, unit-risk tables for 1-3 measures with missing tickers, UpdateRisk with history depth 0-2; "
    "a probe after the UpdateRisk algos checks on every date risk[security] == unit risk x position x multiplier (0 when flat or missing), risk[strategy] == sum over children, and the "
    "risks row of the date down to the requested depth. hedge: HedgeRisks with generated instrument sets (square, over- and under-determined, multipliers != 1) followed by UpdateRisk: "
    "with a square well-conditioned Jacobian (cond < 1e6) every hedged measure is 0 (1e-8 x scale), with the pseudo-inverse the residual satisfies the normal equations. "
    "close: ClosePositionsAfterDates with close dates inside/before/after the data: position 0 at the end of every date >= close date, never reopened with SelectActive before weighting. "
    "roll: RollPositionsAfterDates: on the first run at/after the roll date the target gains factor x position and the source is flat, exactly once. "
    "close_roll: ClosePositionsAfterDates, RollPositionsAfterDates and SelectActive on one strategy (either order), rolled securities maturing later and possibly bought again by weights that ignore the selection: "
    "probes after each algo check that a matured position is gone right after the closing algo, rolls convert once, SelectActive leaves exactly the names neither closed nor rolled, and perm['closed'] / perm['rolled'] hold exactly what each algo has done. "
    "non-trivial = >= 2 securities with non-zero risk / a hedge actually traded / a position actually closed / rolled. distinct = distinct spec hashes."
)
ASSUMPTIONS = ["close/roll algos run on every date (as their docstrings require)", "hedge instruments have a finite positive price on every date they are traded"]
BUILDS = {"quick": ["py"], "thorough": ["py", "cy"]}

MEASURES = ["ir01", "cs01", "beta"]


# ---- risk aggregation + hedging -------------------------------------------------------------------------
@st.composite
def risk_spec(draw, hedge=False):
    ds = draw(gen.dates(2, 8, kinds=("bday", "daily")))
    n = len(ds)
    nt = draw(st.integers(2, 5))
    tickers = gen.TICKERS[:nt]
    pr = {t: draw(gen.price_path(n, vol=0.01, p0=draw(st.sampled_from([100.0, 50.0, 99.0])), decimals=4)) for t in tickers}
    mult = {t: draw(st.sampled_from([1, 1, 10, 0.1, 100])) for t in tickers}
    nm = draw(st.integers(1, 3))
    measures = MEASURES[:nm]
    unit = {}
    for m in measures:
        cols = {}
        for t in tickers:
            if draw(st.integers(0, 4)) == 0 and not hedge:
                continue  # ticker missing from this measure's table: counts as zero
            base_ = draw(st.sampled_from([0.0, 0.5, 1.0, -2.0, 3.5, 0.01]))
            cols[t] = [round(base_ * (1 + 0.1 * i), 6) for i in range(n)]
        unit[m] = cols
    n_assets = draw(st.integers(1, nt - 1)) if hedge else draw(st.integers(1, nt))
    assets = tickers[:n_assets]
    if not hedge:
        # securities that are never held: their unit risk may even be missing (NaN) on some dates, the risk must still be 0
        for m in measures:
            for t in tickers[n_assets:]:
                if t in unit[m] and draw(st.booleans()):
                    k = draw(st.integers(0, n - 1))
                    unit[m][t][k] = None
    raw = [draw(st.integers(1, 5)) for _ in assets]
    w = {k: round(r / float(sum(raw)) * (1 if draw(st.integers(0, 3)) else -1), 4) for k, r in zip(assets, raw)}
    nested = draw(st.integers(0, 2)) == 0 and not hedge
    hist = draw(st.integers(0, 2))
    # each measure may ask for its own history depth
    hists = {m: (hist if draw(st.booleans()) else draw(st.integers(0, 2))) for m in measures}
    ur = [["UpdateRisk", {"measure": m, "history": hists[m]}] for m in measures]
    spec = {
        "dates": ds,
        "prices": pr,
        "rng_seed": 0,
        "frames": {"unit_risk": {"kind": "dictframes", "frames": unit}},
        "additional": ["unit_risk"],
        "integer_positions": False,
        "initial_capital": 1e6,
        "fee": {"kind": "none"},
        "measures": measures,
        "mult": mult,
        "history": hist,
        "histories": hists,
    }
    kids = [{"sec": t, "mult": mult[t]} for t in tickers]
    if hedge:
        # hedge instruments may be declared lazily (created on their first trade) and still carry a multiplier
        kids = [dict(k, lazy=True) if (k["sec"] in tickers[n_assets:] and draw(st.booleans())) else k for k in kids]
    if nested:
        for m in measures:
            for t in unit[m]:
                unit[m][t] = [0.0 if x is None else x for x in unit[m][t]]
        sub_t = draw(st.lists(st.sampled_from(tickers), min_size=1, max_size=nt, unique=True))
        sw = {t: round(1.0 / len(sub_t), 4) for t in sub_t}
        # the nested book may consist of hedge securities (zero notional by definition, but risky positions all the same); its stack runs
        # after the root's, so the first risk pass sees it flat
        sub_kind = draw(st.sampled_from(["Security", "Security", "HedgeSecurity"]))
        sub = {"name": "sub", "kind": "Strategy", "algos": [["RunDaily", {}], ["WeighSpecified", {"weights": sw}], ["Rebalance", {}]], "children": [dict({"sec": t, "mult": mult[t]}, **({"kind": sub_kind} if sub_kind != "Security" else {})) for t in sub_t]}
        if sub_kind != "Security":
            spec["hedge_sub"] = True
        w2 = dict(w)
        w2 = {k: abs(v) * 0.5 for k, v in w2.items()}
        w2["sub"] = 0.4
        algos = [["RunDaily", {}], ["WeighSpecified", {"weights": w2}], ["Rebalance", {}]] + ur + [["Probe", {"key": "c20risk"}]]
        spec["tree"] = {"name": "root", "kind": "Strategy", "algos": algos, "children": [sub] + kids}
        spec["nested"] = True
    else:
        algos = [draw(st.sampled_from([["RunDaily", {}], ["RunOnce", {}]])), ["WeighSpecified", {"weights": w}], ["Rebalance", {}]]
        tail = list(ur)
        if hedge:
            hedges = tickers[n_assets:]
            hs = draw(st.lists(st.sampled_from(hedges), min_size=1, max_size=len(hedges), unique=True))
            hm = draw(st.lists(st.sampled_from(measures), min_size=1, max_size=nm, unique=True))
            pseudo = len(hs) != len(hm) or draw(st.booleans())
            spec["hedge"] = {"instruments": hs, "measures": hm, "pseudo": pseudo}
            tail += [["SelectThese", {"tickers": hs}], ["HedgeRisks", {"measures": hm, "pseudo": pseudo}]] + ur
            algos = [["RunDaily", {}], ["WeighSpecified", {"weights": w}], ["Rebalance", {}]]
            # Rebalance would close the hedges (non-targets): rebalance once, hedge every date
            algos = [["Or", {"algos": [["Stack", {"algos": [["RunOnce", {}], ["WeighSpecified", {"weights": w}], ["Rebalance", {}]]}], ["Const", {"v": True}]]}]]
        spec["tree"] = {"name": "root", "kind": "Strategy", "algos": algos + tail + [["Probe", {"key": "c20risk"}]], "children": kids}
    return spec


def unit_at(spec, m, t, i):
    col = spec["frames"]["unit_risk"]["frames"][m].get(t)
    return 0.0 if col is None or col[i] is None else col[i]


def check_risk_tree(bt, spec, node, i, depth, now):
    """returns dict measure -> expected risk of node; raises on mismatch"""
    out = {}
    for m in spec["measures"]:
        if isinstance(node, bt.core.SecurityBase):
            exp = 0.0 if abs(node.position) < 1e-16 else unit_at(spec, m, node.name, i) * node.position * node.multiplier
        else:
            exp = 0.0
        out[m] = exp
    if not isinstance(node, bt.core.SecurityBase):
        for c in node.children.values():
            sub = check_risk_tree(bt, spec, c, i, depth + 1, now)
            for m in spec["measures"]:
                out[m] += sub[m]
    if not hasattr(node, "risk"):
        raise Violation("%s has no risk attribute after UpdateRisk" % node.full_name, signature="c20:risk-missing")
    for m in spec["measures"]:
        got = node.risk.get(m)
        if got is None or abs(got - out[m]) > 1e-9 * max(1.0, abs(out[m])):
            raise Violation(
                "%s risk[%s] on %s is %r, expected %r (%s)" % (node.full_name, m, now, got, out[m], "unit %r x position %r x multiplier %r" % (unit_at(spec, m, node.name, i), node.position, node.multiplier) if isinstance(node, bt.core.SecurityBase) else "sum over children"),
                signature="c20:risk:" + ("security" if isinstance(node, bt.core.SecurityBase) else "strategy"),
            )
        hdepth = spec.get("histories", {}).get(m, spec["history"])
        if depth < hdepth:
            if not hasattr(node, "risks") or m not in node.risks.columns:
                raise Violation("%s at depth %d has no risks history for %s (history=%d)" % (node.full_name, depth, m, hdepth), signature="c20:history-missing")
            h = node.risks.loc[now, m]
            if not (abs(h - out[m]) <= 1e-9 * max(1.0, abs(out[m]))):
                raise Violation("%s risks[%s] row of %s is %r, expected %r" % (node.full_name, m, now, h, out[m]), signature="c20:history-row")
        elif hasattr(node, "risks") and m in getattr(node, "risks").columns and not np.isnan(node.risks.loc[now, m]):
            raise Violation("%s at depth %d records a risks history for %s although history=%d" % (node.full_name, depth, m, hdepth), signature="c20:history-depth")
    return out


def case_risk(ctx, spec):
    bt = ctx.bt
    holder = {"n": 0, "nz": 0, "hedged": 0}

    def cb(algo, target):
        root = holder.get("root")
        if target is not root:
            return
        idx = list(root.data.index)
        i = idx.index(target.now) - 1  # spec index (synthetic row first)
        exp = check_risk_tree(bt, spec, root, i, 0, target.now)
        holder["n"] += 1
        nz = sum(1 for m_ in root.members if isinstance(m_, bt.core.SecurityBase) and any(abs(m_.risk.get(k, 0.0)) > 0 for k in spec["measures"]))
        holder["nz"] = max(holder["nz"], nz)
        hd = spec.get("hedge")
        if hd:
            insts, hm = hd["instruments"], hd["measures"]
            A = np.array([[unit_at(spec, m, s_, i) * spec["mult"][s_] for s_ in insts] for m in hm], dtype=float)  # k x n
            e = np.array([root.risk[m] for m in hm], dtype=float)
            scale = max(1.0, max(abs(root.children[t].position * root.children[t].multiplier * unit_at(spec, m, t, i)) for t in root.children for m in hm))
            k, n_ = A.shape
            if np.linalg.matrix_rank(A) < min(k, n_) or np.linalg.cond(A if k == n_ else A @ A.T if k < n_ else A.T @ A) > 1e6:
                return
            if n_ >= k:
                if np.abs(e).max() > 1e-8 * scale:
                    raise Violation("after HedgeRisks(%s, pseudo=%s) with instruments %s (multipliers %s) the hedged risks on %s are %s, expected 0" % (hm, hd["pseudo"], insts, [spec["mult"][s_] for s_ in insts], target.now, dict(zip(hm, e.tolist()))), signature="c20:hedge-residual" + (":mult" if any(spec["mult"][s_] != 1 for s_ in insts) else ""))
            else:
                g = A.T @ e
                if np.abs(g).max() > 1e-8 * scale * max(1.0, np.abs(A).max()):
                    raise Violation("after HedgeRisks(pseudo) over-determined: residual %s does not satisfy the normal equations (gradient %s)" % (e.tolist(), g.tolist()), signature="c20:hedge-normal-eq")
            holder["hedged"] += 1

    interp.Probe.registry["c20risk"] = cb
    base = {k: v for k, v in spec.items() if k not in ("measures", "mult", "history", "histories", "hedge", "nested", "hedge_sub")}
    try:
        b = interp.mk_backtest(bt, base)
        holder["root"] = b.strategy
        with contextlib.redirect_stdout(io.StringIO()):
            try:
                b.run()
            except Violation:
                raise
            except np.linalg.LinAlgError:
                raise Discard("singular Jacobian (pseudo=False)")
            except ZeroDivisionError:
                # a book whose value is exactly zero one date and moves the next (an unfunded book that only holds hedges): bt refuses the
                # return on a zero base by design (C10's class zero_base_*)
                raise Discard("return on a zero base (refused by design)")
            except Exception as e:
                raise Violation("run raised %s: %s" % (type(e).__name__, str(e)[:200]), signature="c20:raises:" + bt_frame_signature(e))
    finally:
        interp.Probe.registry.pop("c20risk", None)
    if holder["n"] == 0:
        raise Discard("probe never reached")
    labs = ["hedge" if spec.get("hedge") else "risk"] + (["nested"] if spec.get("nested") else []) + ["history=%d" % spec["history"]] + (["mixed_history_depths"] if len(set(spec.get("histories", {}).values())) > 1 else []) + (["nested_hedge_securities"] if spec.get("hedge_sub") else [])
    nt = holder["hedged"] > 0 if spec.get("hedge") else holder["nz"] >= 2
    return {"nontrivial": nt, "labels": labs}


# ---- close ----------------------------------------------------------------------------------------------
@st.composite
def close_spec(draw):
    ds = draw(gen.dates(4, 12, kinds=("bday", "daily", "mixed")))
    n = len(ds)
    nt = draw(st.integers(2, 5))
    tickers = gen.TICKERS[:nt]
    pr = {t: draw(gen.price_path(n, vol=0.02, decimals=4)) for t in tickers}
    closing = draw(st.lists(st.sampled_from(tickers), min_size=1, max_size=nt, unique=True))
    import datetime as dt

    cd = {}
    for t in closing:
        k = draw(st.integers(-1, n))
        if k < 0:
            d = (dt.datetime.fromisoformat(ds[0]) - dt.timedelta(days=3)).strftime("%Y-%m-%d")
        elif k >= n:
            d = (dt.datetime.fromisoformat(ds[-1]) + dt.timedelta(days=3)).strftime("%Y-%m-%d")
        else:
            d = ds[k][:10] if draw(st.booleans()) else (dt.datetime.fromisoformat(ds[k]) - dt.timedelta(days=draw(st.integers(0, 2)))).strftime("%Y-%m-%d")
        cd[t] = d
    fi = draw(st.booleans())
    weigh = [["SelectAll", {}], ["SelectActive", {}], ["WeighEqually", {}]]
    stack = [["ClosePositionsAfterDates", {"frame": "closes"}]] + weigh
    spec = {
        "dates": ds,
        "prices": pr,
        "rng_seed": 0,
        "frames": {"closes": {"kind": "table", "index": sorted(cd), "cols": {"date": [cd[t] for t in sorted(cd)]}, "date_cols": ["date"]}},
        "additional": ["closes"],
        "integer_positions": draw(st.booleans()),
        "initial_capital": 1e6,
        "fee": draw(gen.fee_spec(gen.min_price(pr), kinds=("none", "none", "fixed", "prop"))),
        "close_dates": cd,
    }
    if draw(st.integers(0, 2)) == 0:
        spec["frames"]["closes"]["date_dtype"] = "object"
    if fi:
        spec["frames"]["notl"] = {"kind": "series", "values": [1e6] * n}
        spec["frames"]["coupons"] = {"kind": "frame", "cols": {t: [0.01] * n for t in tickers}}
        spec["additional"] += ["notl", "coupons"]
        stack += [["SetNotional", {"frame": "notl"}], ["Rebalance", {}]]
        spec["tree"] = {"name": "root", "kind": "FixedIncomeStrategy", "algos": stack, "children": [{"sec": t, "kind": draw(st.sampled_from(["CouponPayingSecurity", "FixedIncomeSecurity", "HedgeSecurity"]))} for t in tickers]}
    elif draw(st.integers(0, 2)) == 0:
        # the closing algo comes last: on the close date the security has just been traded by an earlier algo of the same pass that only
        # marks the tree stale (as HedgeRisks does) - everything held then is to be closed
        stack = list(weigh) + [["Rebalance", {}]]
        for t in sorted(cd):
            due = [i for i, d_ in enumerate(ds) if d_[:10] >= cd[t]]
            if due:
                stack.append(["Or", {"algos": [["Stack", {"algos": [["RunOnDate", {"dates": [ds[due[0]]]}], ["TradeNoUpdate", {"child": t, "frac": draw(st.sampled_from([0.05, -0.03, 0.2])), "how": "lazy"}]]}], ["Const", {"v": True}]]}])
        stack.append(["ClosePositionsAfterDates", {"frame": "closes"}])
        spec["tree"] = {"name": "root", "kind": "Strategy", "algos": stack, "children": list(tickers)}
        spec["close_last"] = True
    else:
        stack += [["Rebalance", {}]]
        spec["tree"] = {"name": "root", "kind": "Strategy", "algos": stack, "children": list(tickers)}
    if len(cd) >= 2 and not spec.get("close_last") and draw(st.integers(0, 2)) == 0:
        # two maturity tables (bonds and hedges are usually kept apart), one closing algo for each, on the same strategy
        names = sorted(cd)
        k_ = draw(st.integers(1, len(names) - 1))
        fr = spec["frames"].pop("closes")
        for nm_, part in (("closes", names[:k_]), ("closes2", names[k_:])):
            spec["frames"][nm_] = dict(fr, index=part, cols={"date": [cd[t] for t in part]})
        spec["additional"].append("closes2")
        algos_ = spec["tree"]["algos"]
        i_ = [a[0] for a in algos_].index("ClosePositionsAfterDates")
        pair = [["ClosePositionsAfterDates", {"frame": "closes"}], ["ClosePositionsAfterDates", {"frame": "closes2"}]]
        algos_[i_ : i_ + 1] = pair if draw(st.booleans()) else pair[::-1]
        spec["two_close_tables"] = True
    return spec


def case_close(ctx, spec):
    bt = ctx.bt
    base = {k: v for k, v in spec.items() if k not in ("close_dates", "close_last", "two_close_tables")}
    try:
        b = interp.mk_backtest(bt, base)
        with contextlib.redirect_stdout(io.StringIO()):
            b.run()
    except ZeroDivisionError:
        raise Discard("pnl on zero notional")
    except Exception as e:
        raise Violation("run raised %s: %s" % (type(e).__name__, str(e)[:200]), signature="c20:close-raises:" + bt_frame_signature(e))
    s = b.strategy
    closed_any = False
    for t, d in spec["close_dates"].items():
        if t not in s.children:
            continue
        pos = s.children[t].positions
        d = pd.Timestamp(d)
        after = pos[pos.index >= d]
        after = after[after.index > s.data.index[0]]
        # A name that is only declared (a string child, created on first use) matures like any other: once its close date has passed
        # SelectActive keeps it out and it is never opened - the one exception being the closing algo coming LAST in the stack, where an
        # earlier algo of the same pass may open it on that one date before the closing algo has seen it
        held = pos[pos != 0]
        if spec.get("close_last") and len(held) and held.index[0] >= d:
            after = after[after.index != held.index[0]]
        if (after != 0).any():
            raise Violation("%s has close date %s but holds %r on %s" % (t, d, after[after != 0].iloc[0], after[after != 0].index[0]), signature="c20:not-closed")
        before = pos[pos.index < d]
        if (before != 0).any() and len(after):
            closed_any = True
        if t in s.perm.get("closed", set()) and len(after) == 0:
            raise Violation("%s marked closed before its close date %s" % (t, d), signature="c20:closed-early")
    # securities without a close date, or whose date has not come, keep being held
    for t in s.children:
        d = spec["close_dates"].get(t)
        pos = s.children[t].positions
        live = pos[pos.index > s.data.index[0]] if d is None else pos[(pos.index > s.data.index[0]) & (pos.index < pd.Timestamp(d))]
        if len(live) and (live == 0).all() and not isinstance(s.children[t], bt.core.HedgeSecurity) and len(s.children) <= 5:
            raise Violation("%s is never held although it is not (yet) closed" % t, signature="c20:never-held")
    return {"nontrivial": closed_any, "labels": ["fi" if spec["tree"]["kind"] == "FixedIncomeStrategy" else "mv"] + (["closing_algo_last_after_pending_trade"] if spec.get("close_last") else []) + (["two_close_tables"] if spec.get("two_close_tables") else [])}


# ---- roll -----------------------------------------------------------------------------------------------
@st.composite
def roll_spec(draw):
    ds = draw(gen.dates(4, 10, kinds=("bday", "daily")))
    n = len(ds)
    nt = draw(st.integers(2, 5))
    tickers = gen.TICKERS[:nt]
    pr = {t: draw(gen.price_path(n, vol=0.02, decimals=4)) for t in tickers}
    sources = draw(st.lists(st.sampled_from(tickers[:-1]), min_size=1, max_size=nt - 1, unique=True))
    import datetime as dt

    rolls = {}
    same_day = draw(st.integers(0, n)) if draw(st.integers(0, 2)) == 0 else None  # all rolls due together (chains resolved within one call)
    for t in sources:
        # targets may themselves be sources (chains a -> b -> c), but no cycles: only roll "forward" in ticker order
        later = [x for x in tickers if x > t]
        tg = draw(st.sampled_from(later or [tickers[-1]]))
        k = draw(st.integers(0, n)) if same_day is None else same_day
        d = ds[k][:10] if k < n else (dt.datetime.fromisoformat(ds[-1]) + dt.timedelta(days=5)).strftime("%Y-%m-%d")
        rolls[t] = {"date": d, "target": tg, "factor": draw(st.sampled_from([1.0, 1.0, 0.5, 2.0, 1.25]))}
    held = draw(st.lists(st.sampled_from(tickers), min_size=1, max_size=nt, unique=True))
    raw = [draw(st.integers(1, 5)) for _ in held]
    w = {k: round(r / float(sum(raw)) * 0.8, 4) for k, r in zip(held, raw)}
    # either buy once, or keep rebalancing (so a rolled source is bought again and must not be rolled a second time)
    stack = [["RollPositionsAfterDates", {"frame": "rolls"}], ["Probe", {"key": "c20roll"}], draw(st.sampled_from([["RunOnce", {}], ["RunDaily", {}]])), ["WeighSpecified", {"weights": w}], ["Rebalance", {}], ["Probe", {"key": "c20rollend", "run_always": True}]]
    names = sorted(rolls)
    spec = {
        "dates": ds,
        "prices": pr,
        "rng_seed": 0,
        "frames": {"rolls": {"kind": "table", "index": names, "cols": {"date": [rolls[t]["date"] for t in names], "target": [rolls[t]["target"] for t in names], "factor": [rolls[t]["factor"] for t in names]}, "date_cols": ["date"]}},
        "additional": ["rolls"],
        "integer_positions": False,
        "initial_capital": 1e6,
        "fee": {"kind": "none"},
        "rolls": rolls,
        "tree": {"name": "root", "kind": "Strategy", "algos": stack, "children": list(tickers)},
    }
    if draw(st.integers(0, 2)) == 0:
        spec["frames"]["rolls"]["date_dtype"] = "object"
    return spec


def case_roll(ctx, spec):
    bt = ctx.bt
    snaps = []
    holder = {}

    def cb(algo, target):
        if target is holder.get("root"):
            snaps.append((target.now, {c: ch.position for c, ch in target.children.items()}))

    ends = {}

    def cb_end(algo, target):
        # the children that exist (and what they hold) when the date's stack is done = what the algo sees on its next call
        if target is holder.get("root"):
            ends[target.now] = {c: ch.position for c, ch in target.children.items()}

    interp.Probe.registry["c20roll"] = cb
    interp.Probe.registry["c20rollend"] = cb_end
    base = {k: v for k, v in spec.items() if k != "rolls"}
    try:
        b = interp.mk_backtest(bt, base)
        holder["root"] = b.strategy
        with contextlib.redirect_stdout(io.StringIO()):
            try:
                b.run()
            except Exception as e:
                raise Violation("run raised %s: %s" % (type(e).__name__, str(e)[:200]), signature="c20:roll-raises:" + bt_frame_signature(e))
    finally:
        interp.Probe.registry.pop("c20roll", None)
        interp.Probe.registry.pop("c20rollend", None)
    rolls = spec["rolls"]
    rolled = set()
    prev = {}
    did = False
    for now, pos in snaps:
        exp = dict(prev)
        due = [t for t in sorted(rolls) if t not in rolled and pd.Timestamp(rolls[t]["date"]) <= now and t in prev_children(prev, t) and t != rolls[t]["target"]]
        # every matured position is converted from what was held before this call (once), sources end flat, conversions add up in the targets
        for t in due:
            rolled.add(t)
            exp[t] = 0.0
        for t in due:
            r = rolls[t]
            q = prev.get(t, 0.0)
            exp[r["target"]] = exp.get(r["target"], 0.0) + r["factor"] * q
            if q != 0:
                did = True
        for c in set(exp) | set(pos):
            if abs(pos.get(c, 0.0) - exp.get(c, 0.0)) > 1e-9 * max(1.0, abs(exp.get(c, 0.0))):
                raise Violation("after RollPositionsAfterDates on %s: position of %s is %r, expected %r (before: %s, rolls %s)" % (now, c, pos.get(c, 0.0), exp.get(c, 0.0), prev, rolls), signature="c20:roll")
        # what the algo will see on its next call: the children existing at the end of this date's stack
        prev = dict(ends.get(now, pos))
    return {"nontrivial": did, "labels": ["rolled=%d" % len(rolled)]}


# ---- close + roll + SelectActive on one strategy ----------------------------------------------------------
@st.composite
def close_roll_spec(draw):
    import datetime as dt

    ds = draw(gen.dates(5, 12, kinds=("bday", "daily")))
    n = len(ds)
    nt = draw(st.integers(3, 5))
    tickers = gen.TICKERS[:nt]
    pr = {t: draw(gen.price_path(n, vol=0.02, decimals=4)) for t in tickers}
    sources = draw(st.lists(st.sampled_from(tickers[:-1]), min_size=1, max_size=nt - 1, unique=True))
    rolls = {}
    cd = {}
    for t in sources:
        k = draw(st.integers(1, n - 2))
        later = [x for x in tickers if x > t]
        rolls[t] = {"date": ds[k][:10], "target": draw(st.sampled_from(later)), "factor": draw(st.sampled_from([1.0, 0.5, 2.0]))}
        if draw(st.integers(0, 3)) > 0:
            # the rolled security matures later than its first permitted roll date (on-the-run switch before maturity)
            k2 = draw(st.integers(k + 1, n))
            cd[t] = ds[k2][:10] if k2 < n else (dt.datetime.fromisoformat(ds[-1]) + dt.timedelta(days=4)).strftime("%Y-%m-%d")
    for t in tickers:
        if t not in rolls and draw(st.integers(0, 2)) == 0:
            cd[t] = ds[draw(st.integers(1, n - 1))][:10]
    if not cd:
        t = draw(st.sampled_from(tickers))
        cd[t] = ds[draw(st.integers(1, n - 1))][:10]
    raw = [draw(st.integers(1, 5)) for _ in tickers]
    w = {k: round(r / float(sum(raw)) * 0.9, 4) for k, r in zip(tickers, raw)}
    # 'specified': the weights name every ticker whatever was selected, so a rolled security is bought again and still has to be closed at
    # its own close date; 'equal': weights follow SelectActive, so closed and rolled names are never held again
    mode = draw(st.sampled_from(["specified", "equal"]))
    weigh = ["WeighSpecified", {"weights": w}] if mode == "specified" else ["WeighEqually", {}]
    first = draw(st.sampled_from(["close", "roll"]))
    head = [["ClosePositionsAfterDates", {"frame": "closes"}], ["Probe", {"key": "c20cr", "tag": "close"}], ["RollPositionsAfterDates", {"frame": "rolls"}], ["Probe", {"key": "c20cr", "tag": "roll"}]]
    if first == "roll":
        head = head[2:] + head[:2]
    stack = head + [["SelectAll", {}], ["SelectActive", {}], ["Probe", {"key": "c20cr", "tag": "selected"}], weigh, ["Rebalance", {}], ["Probe", {"key": "c20cr", "tag": "end", "run_always": True}]]
    rn = sorted(rolls)
    cn = sorted(cd)
    spec = {
        "dates": ds,
        "prices": pr,
        "rng_seed": 0,
        "frames": {
            "rolls": {"kind": "table", "index": rn, "cols": {"date": [rolls[t]["date"] for t in rn], "target": [rolls[t]["target"] for t in rn], "factor": [rolls[t]["factor"] for t in rn]}, "date_cols": ["date"]},
            "closes": {"kind": "table", "index": cn, "cols": {"date": [cd[t] for t in cn]}, "date_cols": ["date"]},
        },
        "additional": ["rolls", "closes"],
        "integer_positions": False,
        "initial_capital": 1e6,
        "fee": {"kind": "none"},
        "rolls": rolls,
        "close_dates": cd,
        "mode": mode,
        "tree": {"name": "root", "kind": "Strategy", "algos": stack, "children": list(tickers)},
    }
    return spec


def case_close_roll(ctx, spec):
    """The three algos cooperate through perm['closed'] / perm['rolled'] (documented 'Sets:'): each set holds exactly what its algo has
    done so far, a matured position is gone right after ClosePositionsAfterDates whatever happened to the security before (rolled and
    bought again included), rolls convert once, and SelectActive drops exactly the union."""
    bt = ctx.bt
    holder = {}
    ev = []

    def cb(algo, target):
        if target is holder.get("root"):
            ev.append((algo.tag, target.now, {c: ch.position for c, ch in target.children.items()}, set(target.perm.get("closed", set())), set(target.perm.get("rolled", set())), list(target.temp.get("selected", []))))

    interp.Probe.registry["c20cr"] = cb
    base = {k: v for k, v in spec.items() if k not in ("rolls", "close_dates", "mode")}
    try:
        b = interp.mk_backtest(bt, base)
        holder["root"] = b.strategy
        with contextlib.redirect_stdout(io.StringIO()):
            try:
                b.run()
            except Exception as e:
                raise Violation("run raised %s: %s" % (type(e).__name__, str(e)[:200]), signature="c20:closeroll-raises:" + bt_frame_signature(e))
    finally:
        interp.Probe.registry.pop("c20cr", None)
    rolls, cd = spec["rolls"], spec["close_dates"]
    o_closed, o_rolled = set(), set()  # inactive names (what SelectActive filters on)
    o_cpos, o_rpos = set(), set()  # names whose position has been closed / moved
    prev = {}  # positions seen at the previous probe
    exists = set()  # children existing when an algo is called (all declared eagerly here)
    closed_after_roll = False
    rolled_any = False
    for tag, now, pos, p_closed, p_rolled, selected in ev:
        if tag == "close":
            # past its date a name is inactive whether it is a child yet or not; whatever it holds is closed the first time the algo sees it
            # as a child at or after that date
            for t in sorted(cd):
                if pd.Timestamp(cd[t]) <= now:
                    o_closed.add(t)
            due = [t for t in sorted(cd) if t in o_closed and t in pos and t not in o_cpos]
            for t in due:
                o_cpos.add(t)
                if t in o_rolled and abs(prev.get(t, 0.0)) > 0:
                    closed_after_roll = True
                if abs(pos.get(t, 0.0)) > 1e-9:
                    raise Violation("%s: right after ClosePositionsAfterDates %s still holds %r although its close date %s has passed (held before the call: %r, rolled earlier: %s)" % (now, t, pos[t], cd[t], prev.get(t), t in o_rolled), signature="c20:closeroll-not-closed")
            for t in pos:
                if t not in due and abs(pos[t] - prev.get(t, 0.0)) > 1e-9 * max(1.0, abs(prev.get(t, 0.0))):
                    raise Violation("%s: ClosePositionsAfterDates changed %s from %r to %r (close date %s, already closed %s)" % (now, t, prev.get(t, 0.0), pos[t], cd.get(t), t in o_cpos), signature="c20:closeroll-other")
        elif tag == "roll":
            for t in sorted(rolls):
                if pd.Timestamp(rolls[t]["date"]) <= now:
                    o_rolled.add(t)
            due = [t for t in sorted(rolls) if t in o_rolled and t in pos and t not in o_rpos]
            exp = dict(prev)
            for t in due:
                o_rpos.add(t)
                exp[t] = 0.0
            for t in due:
                q = prev.get(t, 0.0)
                exp[rolls[t]["target"]] = exp.get(rolls[t]["target"], 0.0) + rolls[t]["factor"] * q
                if q != 0:
                    rolled_any = True
            for c in set(exp) | set(pos):
                if abs(pos.get(c, 0.0) - exp.get(c, 0.0)) > 1e-9 * max(1.0, abs(exp.get(c, 0.0))):
                    raise Violation("%s: after RollPositionsAfterDates position of %s is %r, expected %r (before %s)" % (now, c, pos.get(c, 0.0), exp.get(c, 0.0), prev), signature="c20:closeroll-roll")
        elif tag == "selected":
            exp_sel = [t for t in spec["tree"]["children"] if t not in o_closed and t not in o_rolled]
            if sorted(selected) != sorted(exp_sel):
                raise Violation("%s: SelectActive left %s, expected %s (closed %s, rolled %s)" % (now, selected, exp_sel, sorted(o_closed), sorted(o_rolled)), signature="c20:closeroll-selected")
        elif tag == "end" and spec["mode"] == "equal":
            for t in o_closed | o_rolled:
                if abs(pos.get(t, 0.0)) > 1e-9:
                    raise Violation("%s: %s was %s earlier and is held again (%r) although the weights follow SelectActive" % (now, t, "closed" if t in o_closed else "rolled", pos[t]), signature="c20:closeroll-reopened")
        # the documented bookkeeping sets hold exactly what each algo has done so far (checked once both have run on this date)
        if tag == "selected":
            if p_closed != o_closed:
                raise Violation("%s: perm['closed'] is %s but ClosePositionsAfterDates has closed %s" % (now, sorted(p_closed), sorted(o_closed)), signature="c20:closeroll-perm-closed")
            if p_rolled != o_rolled:
                raise Violation("%s: perm['rolled'] is %s but RollPositionsAfterDates has rolled %s" % (now, sorted(p_rolled), sorted(o_rolled)), signature="c20:closeroll-perm-rolled")
        prev = pos
    return {"nontrivial": rolled_any and len(o_closed) > 0, "labels": [spec["mode"]] + (["closed_after_roll_and_rebuy"] if closed_after_roll else [])}


def prev_children(prev, t):
    # the algo only considers securities that exist as children when it runs
    return prev


SUBS = {"risk": case_risk, "hedge": case_risk, "close": case_close, "roll": case_roll, "close_roll": case_close_roll}
STRATS = {"risk": lambda: risk_spec(hedge=False), "hedge": lambda: risk_spec(hedge=True), "close": close_spec, "roll": roll_spec, "close_roll": close_roll_spec}


def shard(ctx):
    run_sub(ctx, "risk", risk_spec(hedge=False), lambda s: case_risk(ctx, s), ctx.n(800, 12000))
    run_sub(ctx, "hedge", risk_spec(hedge=True), lambda s: case_risk(ctx, s), ctx.n(800, 12000))
    run_sub(ctx, "close", close_spec(), lambda s: case_close(ctx, s), ctx.n(640, 10000))
    run_sub(ctx, "roll", roll_spec(), lambda s: case_roll(ctx, s), ctx.n(640, 10000))
    run_sub(ctx, "close_roll", close_roll_spec(), lambda s: case_close_roll(ctx, s), ctx.n(640, 10000))
