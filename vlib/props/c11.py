"""C11 Backtests are isolated, repeatable and never mutate their inputs."""
import contextlib
import copy
import hashlib
import io
import json
import os
import subprocess
import sys

import numpy as np
import pandas as pd
from hypothesis import strategies as st

from .. import gen, interp
from ..harness import VERIF, Discard, Violation, run_sub
from . import c10

RULE = (
    "template: a generated template strategy (stateful schedulers RunOnce/RunAfterDays/RunEveryNPeriods, RNG-based SelectRandomly/WeighRandomly, nested trees) with generated data and "
    "additional frames; a generated schedule builds 1-3 backtests from the one template, constructs and runs them in a generated order, runs some twice. Oracle: deep structural "
    "fingerprints of the template and of every input frame (values, dtypes, index, column order) are equal before and after; every backtest's full history equals the history of a "
    "lone backtest of a fresh template (RNG seeded identically before each run) whatever the order and siblings; a second run() changes nothing and calls no algo. "
    "hashseed: the same spec executed in fresh interpreter processes with PYTHONHASHSEED 0, 1, 2 and random gives bit-identical histories. "
    "hashseed_limitdeltas: dated targets that shrink from many names to a few under LimitDeltas with commissions (several held names get their wind-down weight in one call), same comparison across hash seeds. "
    "value_frames: a target frame handed to WeighTarget by value is edited in place by the caller after the backtest was built; a user algo keeps its state in a pandas Series and two backtests are built from one template: every backtest equals a lone one, the template's algo state is untouched. "
    "dynamic: a strategy without declared children opens sub-strategies while it runs (pairs-trading pattern): the caller's frame and the frame the backtest exposes as .data are unchanged, a second backtest built on that .data equals one built on the original. "
    "twodata: one template run over two data sets (same tickers and dates, different prices) in generated orders within one process; each run equals a lone run of that data in a fresh process. "
    "benchmark: benchmark_random(backtest, template, nsim) builds nsim backtests from the template it is handed: template and data fingerprints unchanged (functions by identity, bound methods with their owner), the template's commission function answers as before although the benchmarked backtest pays commissions, nsim distinct random results. "
    "non-trivial = at least two backtests from one template with a stateful or RNG algo (template) / a declared-children or RNG spec across >= 3 hash seeds (hashseed). distinct = distinct spec hashes."
)
ASSUMPTIONS = ["random and numpy.random are seeded from the spec immediately before each run (the statement's 'with the random seeds fixed')"]
BUILDS = {"quick": ["py"], "thorough": ["py", "cy"]}


def fp(obj, seen=None, depth=0):
    """deep structural fingerprint (handles cycles through parent pointers)"""
    seen = seen if seen is not None else {}
    if id(obj) in seen:
        return ("ref", seen[id(obj)])
    if isinstance(obj, (int, float, str, bool, type(None), bytes)):
        if isinstance(obj, float) and obj != obj:
            return "nan"
        return obj
    if isinstance(obj, (np.floating, np.integer, np.bool_)):
        return fp(obj.item(), seen, depth)
    if isinstance(obj, pd.DataFrame):
        return ("df", [str(c) for c in obj.columns], [str(x) for x in obj.index], [str(t) for t in obj.dtypes], hashlib.md5(repr(obj.to_numpy().tolist()).encode()).hexdigest())
    if isinstance(obj, pd.Series):
        return ("ser", [str(x) for x in obj.index], str(obj.dtype), hashlib.md5(repr(obj.tolist()).encode()).hexdigest())
    if isinstance(obj, pd.Index):
        return ("idx", [str(x) for x in obj])
    if isinstance(obj, np.ndarray):
        return ("arr", obj.shape, hashlib.md5(repr(obj.tolist()).encode()).hexdigest())
    if isinstance(obj, (pd.Timestamp, pd.DateOffset)):
        return repr(obj)
    seen[id(obj)] = len(seen)
    if isinstance(obj, dict):
        return ("dict", sorted(((repr(k), fp(v, seen, depth + 1)) for k, v in obj.items()), key=lambda x: x[0]))
    if isinstance(obj, (list, tuple)):
        return ("seq", [fp(v, seen, depth + 1) for v in obj])
    if isinstance(obj, (set, frozenset)):
        return ("set", sorted(repr(x) for x in obj))
    if callable(obj) and not hasattr(obj, "__dict__"):
        return ("fn", getattr(obj, "__name__", "?"))
    import types

    if isinstance(obj, types.MethodType):
        # a bound method is the function and the object it is bound to (a strategy's default commission function is bound to that strategy)
        return ("method", getattr(obj.__func__, "__qualname__", "?"), fp(obj.__self__, seen, depth + 1))
    if isinstance(obj, (types.FunctionType, types.BuiltinFunctionType)):
        # functions are copied by reference (also by deepcopy): identity is what can be compared within one process
        return ("function", getattr(obj, "__module__", "?"), getattr(obj, "__qualname__", "?"), id(obj))
    d = getattr(obj, "__dict__", None)
    if d is None:
        return ("obj", type(obj).__name__, repr(obj)[:50])
    if isinstance(obj, interp.Fee):
        return ("fee", json.dumps(obj.spec, sort_keys=True))
    return ("obj", type(obj).__name__, sorted(((k, fp(v, seen, depth + 1)) for k, v in d.items() if not k.startswith("_verif")), key=lambda x: x[0]))


def frames_fp(data, add):
    return (fp(data), fp(add))


def build_inputs(bt, spec, decoy=False):
    frames = interp.mk_frames(spec)
    data = interp.mk_data(spec)
    if decoy and spec["tree"].get("children"):
        # the caller reuses the very same child node objects in a second tree built afterwards
        tree = spec["tree"]
        kids = [interp.mk_node(bt, c, spec, frames) for c in tree["children"]]
        algos = [interp.mk_algo(bt, a, spec, frames) for a in tree.get("algos", [])]
        template = getattr(bt.core, tree.get("kind", "Strategy"))(tree["name"], algos=algos, children=kids)
        bt.core.Strategy("decoy", algos=[], children=kids)
    else:
        template = interp.mk_node(bt, spec["tree"], spec, frames)
    add = interp.mk_additional(spec, frames)
    fee = interp.Fee(spec["fee"]) if spec.get("fee") and spec["fee"].get("kind") != "none" else None
    return template, data, add, fee


def mk(bt, spec, template, data, add, fee):
    return bt.Backtest(template, data, integer_positions=spec.get("integer_positions", True), commissions=fee, additional_data=add or None, initial_capital=spec.get("initial_capital", 1e6), progress_bar=False)


def run_quiet(b):
    with contextlib.redirect_stdout(io.StringIO()):
        b.run()


def first_diff(a, b):
    for k in a:
        if k not in b:
            return "node %s missing" % k
        for f in a[k]:
            if a[k][f] != b[k].get(f):
                x, y = a[k][f], b[k].get(f)
                i = next((i for i, (p, q) in enumerate(zip(x, y)) if p != q), -1) if isinstance(y, list) else -1
                return "%s.%s row %d: %r vs %r" % (k, f, i, x[i] if i >= 0 else x, (y[i] if i >= 0 else y))
    for k in b:
        if k not in a:
            return "extra node %s" % k
    return None


def case_template(ctx, spec):
    bt = ctx.bt
    sched = spec["schedule"]
    base = {k: v for k, v in spec.items() if k not in ("schedule", "family")}
    # reference: lone backtest of a fresh template
    t0, d0, a0, f0 = build_inputs(bt, base)
    interp.seed_rngs(base)
    ref = mk(bt, base, t0, d0, a0, f0)
    try:
        run_quiet(ref)
    except Exception as e:
        raise Discard("run raised (C10's business): %s" % type(e).__name__)
    H = interp.tree_history(ref.strategy, bt)
    # the schedule on one shared template and shared input frames
    template, data, add, fee = build_inputs(bt, base, decoy=sched.get("decoy", False))
    fp_t0 = fp(template)
    fp_d0 = frames_fp(data, add)
    calls = []
    interp.Probe.registry["c11spy"] = lambda algo, target: calls.append(1)
    try:
        k = sched["n"]
        bts = {}
        for i in sched["construct_order"][:k]:
            try:
                bts[i] = mk(bt, base, template, data, add, fee)
            except Exception as e:
                raise Violation("constructing backtest #%d from the template raised %s: %s" % (i, type(e).__name__, str(e)[:150]), signature="c11:construct-raises")
            if fp(template) != fp_t0:
                raise Violation("constructing a backtest modified the strategy template", signature="c11:template-mutated:construct")
        for i in sched["run_order"]:
            if i not in bts:
                continue
            b = bts[i]
            again = b.has_run
            n_calls = len(calls)
            if not again:
                interp.seed_rngs(base)
            snap_before = interp.tree_history(b.strategy, bt) if again else None
            try:
                run_quiet(b)
            except Exception as e:
                raise Violation("backtest #%d of %d built from one template raised %s: %s although a lone backtest of the same template runs" % (i, k, type(e).__name__, str(e)[:150]), signature="c11:not-independent:raises")
            if again:
                if len(calls) != n_calls:
                    raise Violation("asking a finished backtest to run again re-ran its algos", signature="c11:rerun-calls")
                if interp.tree_history(b.strategy, bt) != snap_before:
                    raise Violation("asking a finished backtest to run again changed its results", signature="c11:rerun-results")
            else:
                d = first_diff(H, interp.tree_history(b.strategy, bt))
                if d:
                    raise Violation("backtest #%d of %d built from one template (run order %s) differs from a lone backtest: %s" % (i, k, sched["run_order"], d), signature="c11:not-independent")
        if fp(template) != fp_t0:
            raise Violation("running backtests modified the strategy template", signature="c11:template-mutated:run")
        if frames_fp(data, add) != fp_d0:
            raise Violation("constructing/running backtests modified the input data frames", signature="c11:data-mutated")
    finally:
        interp.Probe.registry.pop("c11spy", None)
    labs = gen.spec_labels(base) + ["family=" + spec.get("family", "grammar")]
    stateful = any(l in labs for l in ("algo=RunOnce", "algo=RunAfterDays", "algo=RunEveryNPeriods", "algo=SelectRandomly", "algo=WeighRandomly", "algo=RebalanceOverTime"))
    if stateful:
        labs.append("stateful_or_rng")
    return {"nontrivial": sched["n"] >= 2 and stateful, "labels": labs}


@st.composite
def template_spec(draw):
    fam = draw(st.sampled_from(["grammar"] * 7 + ["fixed_income", "risk", "close", "roll", "vol"]))
    if fam == "grammar":
        spec = draw(gen.backtest_spec(max_dates=12))
    elif fam == "fixed_income":
        # coupon, holding-cost and notional frames
        from . import c17

        spec = draw(c17.run_spec())
    elif fam == "risk":
        from . import c20

        spec = draw(c20.risk_spec(hedge=draw(st.booleans())))
    elif fam == "close":
        # tables indexed by security name (close / roll dates) are handed to the algos as they are
        from . import c20

        spec = draw(c20.close_spec())
    elif fam == "roll":
        from . import c20

        spec = draw(c20.roll_spec())
    else:
        # target-weight frames handed to algos by value
        from . import c04

        spec = draw(c04.vol_spec())
    spec["family"] = fam
    nodes = list(gen.walk_nodes(spec["tree"]))
    nodes[0][1]["algos"].insert(0, ["Probe", {"key": "c11spy", "run_always": True}])
    n = draw(st.integers(1, 3))
    order = draw(st.permutations(list(range(n))))
    run_order = draw(st.lists(st.integers(0, n - 1), min_size=n, max_size=2 * n))
    for i in range(n):
        if i not in run_order:
            run_order.append(i)
    spec["schedule"] = {"n": n, "construct_order": list(order), "run_order": run_order, "decoy": draw(st.integers(0, 3)) == 0}
    return spec


# ---- hash seeds / fresh processes --------------------------------------------------------------
def run_in_process(spec, kind, hashseed):
    env = dict(os.environ)
    env["PYTHONHASHSEED"] = str(hashseed)
    env["PYTHONPATH"] = VERIF + os.pathsep + env.get("PYTHONPATH", "")
    p = subprocess.run([sys.executable, "-m", "vlib.hsworker", kind], input=json.dumps(spec), capture_output=True, text=True, env=env, cwd=VERIF, timeout=600)
    if p.returncode != 0:
        from ..harness import HarnessError

        raise HarnessError("hash-seed worker failed: %s" % p.stderr[-2000:])
    return json.loads(p.stdout)


def case_hashseed(ctx, spec):
    seeds = spec.get("hashseeds", [0, 1, 2, "random"])
    base = {k: v for k, v in spec.items() if k != "hashseeds"}
    outs = [run_in_process(base, ctx.kind, h) for h in seeds]
    if all("error" in o for o in outs):
        raise Discard("run raises in every process (C10's business)")
    ref = outs[0]
    for h, o in zip(seeds[1:], outs[1:]):
        if ("error" in o) != ("error" in ref):
            raise Violation("run raises under PYTHONHASHSEED=%s but not under %s: %s" % (h if "error" in o else seeds[0], seeds[0] if "error" in o else h, o.get("error") or ref.get("error")), signature="c11:hashseed-error")
        if "error" in o:
            continue
        d = first_diff(ref["history"], o["history"])
        if d:
            raise Violation(
                "same spec, PYTHONHASHSEED=%s vs %s: %s (universe columns %s vs %s)" % (seeds[0], h, d, ref["universe_columns"], o["universe_columns"]), signature="c11:hashseed"
            )
    labs = gen.spec_labels(base)
    declared = any(nd.get("children") for _, nd in gen.walk_nodes(base["tree"]))
    return {"nontrivial": declared or any("Randomly" in l or l == "algo=LimitDeltas" for l in labs), "labels": labs + (["declared_children"] if declared else [])}


@st.composite
def dynamic_spec(draw):
    """a strategy that declares no children (the whole data set is its universe) opens sub-strategies while it runs, the way the pairs
    trading example does"""
    ds = draw(gen.dates(5, 10, kinds=("bday", "daily")))
    n = len(ds)
    nt = draw(st.integers(2, 4))
    tickers = gen.TICKERS[:nt]
    pr = {t: draw(gen.price_path(n, vol=0.02, decimals=4)) for t in tickers}
    spawns = []
    for i in range(draw(st.integers(1, 2))):
        spawns.append(["SpawnSub", {"date": ds[draw(st.integers(0, n - 2))], "name": "T%d" % (i + 1), "tickers": draw(st.lists(st.sampled_from(tickers), min_size=1, max_size=2, unique=True)), "frac": draw(st.sampled_from([0.1, 0.2, 0.3])), "declare": True}])
    own = draw(st.sampled_from([[], [["RunOnce", {}], ["SelectThese", {"tickers": [tickers[0]]}], ["WeighSpecified", {"weights": {tickers[0]: 0.3}}], ["Rebalance", {}]]]))
    spec = {
        "dates": ds,
        "prices": pr,
        "rng_seed": 0,
        "frames": {},
        "additional": [],
        "integer_positions": draw(st.booleans()),
        "initial_capital": 1e6,
        "fee": {"kind": "none"},
        "tree": {"name": "root", "kind": "Strategy", "algos": spawns + own},
    }
    return spec


def case_dynamic(ctx, spec):
    """the frame a backtest exposes as .data is the frame it was given (plus the synthetic first row) also after sub-strategies were opened
    during the run, so a second backtest built on it - a common way to reuse prepared data - behaves like one built on the original"""
    bt = ctx.bt
    data = interp.mk_data(spec)
    fp_in = fp(data)
    cols_in = [str(c) for c in data.columns]
    try:
        b = interp.mk_backtest(bt, spec, data=data)
        interp.seed_rngs(spec)
        with contextlib.redirect_stdout(io.StringIO()):
            b.run()
    except Exception as e:
        raise Violation("a strategy opening sub-strategies while it runs raised %s: %s" % (type(e).__name__, str(e)[:200]), signature="c11:dynamic-raises")
    if fp(data) != fp_in:
        raise Violation("running the backtest modified the caller's data frame", signature="c11:data-mutated:dynamic")
    got_cols = [str(c) for c in b.data.columns]
    if got_cols != cols_in:
        raise Violation("after the run Backtest.data has columns %s, it was built from %s (sub-strategies opened during the run: %s)" % (got_cols, cols_in, [c for c in b.strategy.children if c not in cols_in]), signature="c11:backtest-data-grew")
    if not np.array_equal(np.asarray(b.data.iloc[1:], dtype=float), np.asarray(data, dtype=float), equal_nan=True):
        raise Violation("after the run Backtest.data no longer holds the prices it was given", signature="c11:backtest-data-values")
    # reuse: a plain second backtest over the first one's .data equals the same backtest over the original frame
    def plain(frame):
        s2 = bt.Strategy("second", [bt.algos.RunOnce(), bt.algos.SelectAll(), bt.algos.WeighEqually(), bt.algos.Rebalance()])
        b2 = bt.Backtest(s2, frame, integer_positions=False, progress_bar=False)
        b2.run()
        return [float(x) for x in b2.strategy.values], sorted(b2.strategy.children)

    v_reuse, kids_reuse = plain(b.data.iloc[1:])
    v_orig, kids_orig = plain(data)
    if kids_reuse != kids_orig or v_reuse != v_orig:
        raise Violation("a second backtest built on the first one's .data trades %s and ends at %r; built on the original frame it trades %s and ends at %r" % (kids_reuse, v_reuse[-1], kids_orig, v_orig[-1]), signature="c11:dynamic-reuse")
    spawned = [c for c in b.strategy.children if isinstance(b.strategy.children[c], bt.core.StrategyBase)]
    return {"nontrivial": len(spawned) >= 1, "labels": ["spawned=%d" % len(spawned)]}


@st.composite
def value_frames_spec(draw):
    ds = draw(gen.dates(4, 9, kinds=("bday", "daily")))
    n = len(ds)
    tickers = gen.TICKERS[: draw(st.integers(2, 3))]
    pr = {t: draw(gen.price_path(n, vol=0.02, decimals=4)) for t in tickers}
    rows = []
    for _ in range(n):
        raw = [draw(st.integers(0, 4)) for _ in tickers]
        tot = float(sum(raw)) or 1.0
        rows.append([round(r / tot * 0.9, 4) for r in raw])
    return {"dates": ds, "prices": pr, "targets": rows, "edit": draw(st.sampled_from(["reverse_rows", "zero", "scale"])), "integer_positions": draw(st.booleans())}


def case_value_frames(ctx, spec):
    """frames handed to an algo by value, and state an algo keeps in a pandas object: each backtest owns its copy from construction on - a
    later in-place edit of the caller's frame, or another backtest of the same template, does not reach it"""
    bt = ctx.bt
    data = interp.mk_data(spec)
    tick = sorted(spec["prices"])
    tw = pd.DataFrame(spec["targets"], index=data.index, columns=tick)

    def mk(df):
        return bt.Strategy("s", [bt.algos.WeighTarget(df), bt.algos.Rebalance()])

    def hist(b):
        return interp.tree_history(b.strategy, bt)

    ref = bt.Backtest(mk(tw.copy()), data.copy(), integer_positions=spec["integer_positions"], progress_bar=False)
    ref.run()
    mine = tw.copy()
    b = bt.Backtest(mk(mine), data, integer_positions=spec["integer_positions"], progress_bar=False)
    # the caller goes on working with its own frame after the backtest has been built
    if spec["edit"] == "reverse_rows":
        mine.iloc[:, :] = mine.to_numpy()[::-1].copy()
    elif spec["edit"] == "zero":
        mine.iloc[:, :] = 0.0
    else:
        mine.iloc[:, :] = mine.to_numpy() * 0.5
    b.run()
    d = first_diff(hist(ref), hist(b))
    if d:
        raise Violation("the caller edited its target frame in place (%s) after the backtest was built and before it ran: %s" % (spec["edit"], d), signature="c11:value-frame-shared")

    # state kept by a user algo in a pandas object
    def _init(self):
        bt.core.Algo.__init__(self)
        self.state = pd.Series({"n": 0.0})

    def _call(self, target):
        self.state["n"] += 1.0
        target.temp["weights"] = {tick[0]: min(0.9, 0.15 * float(self.state["n"]))}
        return True

    Ratchet = type("Ratchet", (bt.core.Algo,), {"__init__": _init, "__call__": _call})
    tpl = bt.Strategy("r", [Ratchet(), bt.algos.Rebalance()])
    lone = bt.Backtest(bt.Strategy("r", [Ratchet(), bt.algos.Rebalance()]), data.copy(), integer_positions=False, progress_bar=False)
    lone.run()
    b1 = bt.Backtest(tpl, data, name="one", integer_positions=False, progress_bar=False)
    b2 = bt.Backtest(tpl, data, name="two", integer_positions=False, progress_bar=False)
    b1.run()
    b2.run()
    for nm, bb in (("first", b1), ("second", b2)):
        d = first_diff(hist(lone), hist(bb))
        if d:
            raise Violation("two backtests of one template whose algo keeps its state in a pandas Series: the %s differs from a lone backtest: %s" % (nm, d), signature="c11:series-state-shared")
    if float(tpl.stack.algos[0].state["n"]) != 0.0:
        raise Violation("running backtests changed the state of the template's own algo (n=%r)" % float(tpl.stack.algos[0].state["n"]), signature="c11:template-mutated:series-state")
    moved = any(any(abs(x) > 0 for x in row) for row in spec["targets"])
    return {"nontrivial": moved, "labels": ["edit=" + spec["edit"]]}


@st.composite
def hashseed_limitdeltas_spec(draw):
    """LimitDeltas walks the union of the held children and the targets: when the targets shrink, several held names without a target get
    theirs in one call. The order in which that happens must not depend on the interpreter's string hashing (Rebalance trades, and
    commissions accumulate, in the order of temp['weights'])."""
    nt = draw(st.integers(6, 14))
    tickers = ["t%02d" % i for i in range(nt)]
    ds = draw(gen.dates(8, 14, kinds=("bday", "daily")))
    n = len(ds)
    pr = {t: draw(gen.price_path(n, vol=0.02, decimals=4)) for t in tickers}
    k = draw(st.integers(1, n - 3))
    keep = draw(st.lists(st.sampled_from(tickers), min_size=1, max_size=3, unique=True))
    cols = {t: [round(1.0 / nt, 6) if i < k else (round(1.0 / len(keep), 6) if t in keep else None) for i in range(n)] for t in tickers}
    spec = {
        "dates": ds,
        "prices": pr,
        "rng_seed": 0,
        "frames": {"tw": {"kind": "frame", "cols": cols}},
        "additional": ["tw"],
        "integer_positions": draw(st.booleans()),
        "initial_capital": 1e6,
        "fee": {"kind": "fixed+prop", "f": draw(st.sampled_from([0.371, 1.3, 0.07])), "r": draw(st.sampled_from([0.00137, 0.0021, 0.00033]))},
        "tree": {"name": "root", "kind": "Strategy", "algos": [["WeighTarget", {"frame": "tw", "by_name": True}], ["LimitDeltas", {"limit": draw(st.sampled_from([0.013, 0.05, 0.021]))}], ["Rebalance", {}]]},
    }
    return spec


@st.composite
def hashseed_spec(draw):
    k = draw(st.integers(0, 3))
    if k == 0:
        spec = draw(gen.backtest_spec(max_dates=10))
    else:
        # order-sensitive shape: declared children + an algo whose outcome depends on the order of the universe columns
        spec = draw(gen.backtest_spec(max_dates=10, nested=False, declare=True))
        algos = spec["tree"]["algos"]
        tick = sorted(spec["prices"])
        choice = draw(st.sampled_from(["selrand", "weighrand", "selrand+weighrand"]))
        # whichever algo produces the selection, its order must not depend on the process
        some = draw(st.lists(st.sampled_from(tick), min_size=min(2, len(tick)), max_size=len(tick), unique=True))
        sel = draw(
            st.sampled_from(
                [
                    [["SelectAll", {}]],
                    [["SelectThese", {"tickers": some}]],
                    [["SelectHasData", {"lookback": {"days": 400}, "min_count": 1}]],
                    [["SelectAll", {}], ["SelectRegex", {"regex": "."}]],
                    [["SelectAll", {}], ["SelectMomentum", {"n": len(tick), "lookback": {"days": 400}}]],
                ]
            )
        )
        new = [["RunDaily", {}]] + sel
        if "selrand" in choice:
            new.append(["SelectRandomly", {"n": draw(st.integers(1, max(1, len(tick) - 1)))}])
        new.append(["WeighRandomly", {}] if "weighrand" in choice else ["WeighEqually", {}])
        new.append(["Rebalance", {}])
        spec["tree"]["algos"] = new
        if draw(st.booleans()):
            spec["tree"]["children"] = list(tick)
        else:
            spec["tree"].pop("children", None)
    return spec


# ---- one template, several data sets ------------------------------------------------------------------
@st.composite
def twodata_spec(draw):
    """one template run over two data sets with the same tickers and dates but different prices, in one process: nothing computed for
    one of them may leak into the other (results keyed by anything coarser than the data itself)"""
    ds = draw(gen.dates(10, 18, kinds=("bday", "daily")))
    n = len(ds)
    nt = draw(st.integers(2, 4))
    tickers = gen.TICKERS[:nt]
    pr_a = {t: draw(gen.price_path(n, vol=draw(st.sampled_from([0.01, 0.03, 0.08])), decimals=4)) for t in tickers}
    pr_b = {t: draw(gen.price_path(n, vol=draw(st.sampled_from([0.01, 0.03, 0.08])), decimals=4)) for t in tickers}
    g = gen.max_gap_days(ds)
    lb = {"days": draw(st.integers(5 * g, 5 * g + 10))}
    weigh = draw(st.sampled_from([["WeighERC", {"lookback": lb}], ["WeighMeanVar", {"lookback": lb}], ["WeighInvVol", {"lookback": lb}], ["WeighEqually", {}]]))
    if weigh[0] == "WeighEqually":
        sel = [["SelectAll", {}], ["SelectMomentum", {"n": draw(st.integers(1, nt - 1)), "lookback": lb}]]
    else:
        sel = [["SelectThese", {"tickers": list(tickers)}]]
    when = draw(st.integers(7, n - 1))
    gate = draw(st.sampled_from([["RunOnDate", {"dates": [ds[when]]}], ["RunOnDate", {"dates": [ds[when]]}], ["RunAfterDays", {"days": when}], ["RunMonthly", {}]]))
    tree = {"name": "root", "kind": "Strategy", "algos": [gate] + sel + [weigh, ["Rebalance", {}]]}
    if draw(st.booleans()):
        tree["children"] = list(tickers)
    return {"dates": ds, "prices": pr_a, "prices_b": pr_b, "rng_seed": 0, "frames": {}, "additional": [], "integer_positions": draw(st.booleans()), "initial_capital": 1e6, "fee": {"kind": "none"}, "tree": tree, "order": draw(st.sampled_from(["AB", "ABA", "BA", "AAB"]))}


def case_twodata(ctx, spec):
    bt = ctx.bt
    specs = {"A": {k: v for k, v in spec.items() if k not in ("prices_b", "order")}}
    specs["B"] = dict(specs["A"], prices=spec["prices_b"])
    ref = {}
    # references in fresh interpreter processes: whatever a process-wide cache may hold, it is empty there
    for k in "AB":
        o = run_in_process(specs[k], ctx.kind, 0)
        if "error" in o:
            raise Discard("run raises (C10's business)")
        ref[k] = o["history"]
    frames = interp.mk_frames(specs["A"])
    template = interp.mk_node(bt, spec["tree"], specs["A"], frames)
    for i, k in enumerate(spec["order"]):
        interp.seed_rngs(specs[k])
        b = mk(bt, specs[k], template, interp.mk_data(specs[k]), {}, None)
        try:
            run_quiet(b)
        except Exception as e:
            raise Violation("backtest #%d (data %s) of the order %s raised %s: %s although a lone run in a fresh process completes" % (i, k, spec["order"], type(e).__name__, str(e)[:150]), signature="c11:twodata-raises")
        d = first_diff(ref[k], interp.tree_history(b.strategy, bt))
        if d:
            raise Violation("one template over two data sets (order %s): run #%d on data %s differs from a lone run of it in a fresh process: %s" % (spec["order"], i, k, d), signature="c11:twodata")
    return {"nontrivial": True, "labels": [spec["tree"]["algos"][-2][0], "order=" + spec["order"]]}


# ---- benchmark_random builds many backtests from one template --------------------------------------
@st.composite
def benchmark_spec(draw):
    ds = draw(gen.dates(6, 14, kinds=("bday", "daily")))
    n = len(ds)
    nt = draw(st.integers(2, 4))
    tickers = gen.TICKERS[:nt]
    pr = draw(gen.prices(n, tickers, n_clean=nt))
    rnd = [draw(st.sampled_from([["RunDaily", {}], ["RunWeekly", {}], ["RunOnce", {}]])), ["SelectAll", {}], ["SelectRandomly", {"n": draw(st.integers(1, nt))}], draw(st.sampled_from([["WeighRandomly", {}], ["WeighEqually", {}]])), ["Rebalance", {}]]
    base = [["RunOnce", {}], ["SelectAll", {}], ["WeighEqually", {}], ["Rebalance", {}]]
    return {"dates": ds, "prices": pr, "rng_seed": draw(st.integers(0, 10**6)), "random_algos": rnd, "base_algos": base, "nsim": draw(st.integers(1, 4)), "template_name": draw(st.sampled_from(["rnd", "random_0", "my strategy"])), "declare": draw(st.booleans())}


def case_benchmark(ctx, spec):
    """benchmark_random(backtest, template, nsim) constructs and runs nsim backtests from the template it is given"""
    bt = ctx.bt
    frames = {}
    data = interp.mk_data(spec)
    tick = sorted(spec["prices"])
    template = bt.core.Strategy(spec["template_name"], [interp.mk_algo(bt, a, spec, frames) for a in spec["random_algos"]], children=list(tick) if spec["declare"] else None)
    base_s = bt.core.Strategy("base", [interp.mk_algo(bt, a, spec, frames) for a in spec["base_algos"]])
    # the benchmarked backtest may pay commissions; the random template was never given any
    fee = interp.Fee({"kind": "prop", "r": 0.001}) if spec["rng_seed"] % 2 == 0 else None
    base_bt = bt.Backtest(base_s, data, progress_bar=False, commissions=fee)
    probe_fee0 = [template.commission_fn(q, p_) for q, p_ in ((100.0, 10.0), (-5.0, 250.0))]
    fp_t0 = fp(template)
    fp_d0 = fp(data)
    interp.seed_rngs(spec)
    try:
        with contextlib.redirect_stdout(io.StringIO()), contextlib.redirect_stderr(io.StringIO()):
            res = bt.backtest.benchmark_random(base_bt, template, nsim=spec["nsim"])
    except Exception as e:
        raise Discard("benchmark_random raised (C10's business): %s" % type(e).__name__)
    if fp(template) != fp_t0:
        raise Violation("benchmark_random modified the strategy template it was given (name %r -> %r)" % (spec["template_name"], template.name), signature="c11:template-mutated:benchmark_random")
    if fp(data) != fp_d0:
        raise Violation("benchmark_random modified the input data", signature="c11:data-mutated:benchmark_random")
    probe_fee1 = [template.commission_fn(q, p_) for q, p_ in ((100.0, 10.0), (-5.0, 250.0))]
    if probe_fee1 != probe_fee0:
        raise Violation("after benchmark_random the template charges commissions %s where it charged %s before (the benchmarked backtest pays %s)" % (probe_fee1, probe_fee0, "0.1%" if fee else "nothing"), signature="c11:template-mutated:benchmark_random:commission")
    names = [k for k in res.backtests if k != base_bt.name]
    if len(names) != spec["nsim"]:
        raise Violation("benchmark_random(nsim=%d) reports %d random backtests: %s" % (spec["nsim"], len(names), names), signature="c11:benchmark-count")
    return {"nontrivial": spec["nsim"] >= 2, "labels": ["nsim=%d" % spec["nsim"]] + (["benchmarked_backtest_pays_commissions"] if fee else [])}


SUBS = {"template": case_template, "hashseed": case_hashseed, "benchmark": case_benchmark, "twodata": case_twodata, "hashseed_limitdeltas": case_hashseed, "dynamic": case_dynamic, "value_frames": case_value_frames}
STRATS = {"template": template_spec, "hashseed": hashseed_spec, "benchmark": benchmark_spec, "twodata": twodata_spec, "hashseed_limitdeltas": hashseed_limitdeltas_spec, "dynamic": dynamic_spec, "value_frames": value_frames_spec}


def shard(ctx):
    run_sub(ctx, "template", template_spec(), lambda s: case_template(ctx, s), ctx.n(640, 8000))
    run_sub(ctx, "hashseed", hashseed_spec(), lambda s: case_hashseed(ctx, s), ctx.n(32, 400))
    run_sub(ctx, "benchmark", benchmark_spec(), lambda s: case_benchmark(ctx, s), ctx.n(160, 2000))
    run_sub(ctx, "twodata", twodata_spec(), lambda s: case_twodata(ctx, s), ctx.n(48, 600))
    run_sub(ctx, "value_frames", value_frames_spec(), lambda s: case_value_frames(ctx, s), ctx.n(240, 4000))
    run_sub(ctx, "dynamic", dynamic_spec(), lambda s: case_dynamic(ctx, s), ctx.n(240, 4000))
    run_sub(ctx, "hashseed_limitdeltas", hashseed_limitdeltas_spec(), lambda s: case_hashseed(ctx, s), ctx.n(32, 600))
