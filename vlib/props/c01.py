"""C01 Balance-sheet identity holds at every node of the tree."""
import numpy as np
from hypothesis import strategies as st

from .. import gen, interp, machine
from ..harness import Discard, Violation, bt_frame_signature, run_sub
from . import c10

RULE = (
    "history: generated operation histories (adjust/allocate/allocate-to-child/transact incl. custom price/rebalance/close/flatten/next date/redundant update) "
    "on generated trees (depth 1-3, shared tickers, lazy and eager children, multipliers, integer or fractional, any commission spec and spread); after every operation "
    "value = cash + children, security value = position x price x multiplier, weight = value / parent value, all compared with an independent reference model fed with the "
    "executed quantities; rows of the current and of every past date equal the end-of-date state. non-trivial = at least one trade and one date change after a trade. "
    "backtest: grammar backtests with a probe algo inserted at a random stack position observing the same identities mid-stack and at the end of every date. "
    "dynamic: a sub-strategy created inside a live tree (parent=, setup_from_parent, optionally the repository's update(parent.now) pattern, optionally while a change is pending), then "
    "allocations / trades / reads: the identities hold at every look, and allocating to the parent pushes nothing into the still empty newcomer. distinct = distinct spec hashes."
)
ASSUMPTIONS = [
    "observation = reading public properties after an operation issued with default update flags, or after the root.update that closes an update=False batch",
    "float tolerance 1e-9 relative to capital + 1e-7 absolute",
]
BUILDS = {"quick": ["py"], "thorough": ["py", "cy"]}
FLOORS = {"nested": ("history", 0.2), "shared_ticker": ("history", 0.05), "trade+next": ("history", 0.12)}


def row_snapshot(run):
    bt = run.bt
    snap = {}
    for m in run.root.members:
        if isinstance(m, bt.core.StrategyBase):
            snap[m.full_name] = {"values": m.value, "cash": m.capital, "notional_values": m.notional_value, "prices": m.price}
        else:
            snap[m.full_name] = {"values": m.value, "positions": m.position, "notional_values": m.notional_value}
    return snap


def check_past_rows(run, past, tag):
    """rows recorded for earlier dates equal the end-of-date snapshots"""
    cap = abs(run.spec["capital"])
    for i, snap in past.items():
        dt = run.dates[i]
        for m in run.root.members:
            sn = snap.get(m.full_name)
            for nm in ("values", "cash", "positions", "notional_values", "prices"):
                if isinstance(m, run.bt.core.SecurityBase) and nm in ("cash", "prices"):
                    continue
                if isinstance(m, run.bt.core.StrategyBase) and nm == "positions":
                    continue
                ser = getattr(m, nm)
                if dt not in ser.index:
                    raise Violation("%s: %s.%s lost the row of %s" % (tag, m.full_name, nm, dt), signature="row-missing")
                got = float(ser.loc[dt])
                exp = 0.0 if sn is None else float(sn[nm])
                if sn is None and nm == "prices":
                    continue
                if not machine.close(got, exp, cap, ab=1e-9):
                    raise Violation("%s: %s.%s row of %s is %r but the end-of-date state was %r" % (tag, m.full_name, nm, dt, got, exp), signature="past-row:" + nm)


def case_history(ctx, spec, groups=("balance", "rows")):
    bt = ctx.bt
    try:
        run = machine.TreeRun(bt, spec)
    except ZeroDivisionError:
        raise Discard("zero base")
    past = {}
    n_trades = 0
    trade_then_next = False
    labs = set(machine.history_labels(spec, None))
    try:
        for k, op in enumerate(spec["ops"]):
            tag = "op#%d %s" % (k, op)
            if op[0] == "next":
                snap = row_snapshot(run)
                i0 = run.i
            try:
                ok = run.step(op)
            except ZeroDivisionError:
                raise Discard("zero base")
            if not ok:
                continue
            labs.add("op=" + op[0])
            applied = run.apply_trades_to_model()
            n_trades += len(applied)
            if op[0] == "next":
                past[i0] = snap
                if n_trades:
                    trade_then_next = True
            try:
                if k % 2 == 1:
                    # the tree may be observed through any node first - an idle security whose own clock lags included
                    mem_ = run.root.members
                    m_ = mem_[(3 * k + 1) % len(mem_)]
                    m_.value
                    m_.weight
                run.root.value  # settle pending updates first: bankruptcy is only detected inside update
                if run.root.bankrupt:
                    raise Discard("bankrupt")
                if "trades" in groups:
                    machine.check_trades(run, applied)
                if "balance" in groups:
                    machine.check_balance(run, tag)
                if "rows" in groups:
                    machine.check_rows(run, tag)
                    if op[0] in ("next", "update") or k == len(spec["ops"]) - 1:
                        check_past_rows(run, past, tag)
                if "accum" in groups:
                    machine.check_accumulators(run, tag)
                if "price" in groups:
                    machine.check_price(run, tag)
            except ZeroDivisionError:
                raise Discard("zero base")
    except (Violation, Discard):
        raise
    except Exception as e:
        raise Violation("history raised %s: %s" % (type(e).__name__, str(e)[:200]), signature="raises:" + bt_frame_signature(e))
    if trade_then_next:
        labs.add("trade+next")
    for t in ("short",):
        if any(s.pos < 0 for s in run.model.root.securities()):
            labs.add("short")
    return {"nontrivial": trade_then_next, "labels": sorted(labs)}


# ---- probe backtests -------------------------------------------------------------------
def check_tree_identities(bt, root, tag):
    for m in root.members:
        if isinstance(m, bt.core.StrategyBase):
            v = m.value
            tot = m.capital + sum(c.value for c in m.children.values())
            scale = max(abs(v), abs(m.capital), 1.0)
            if not machine.close(v, tot, scale):
                raise Violation("%s: %s value %r != cash %r + children %r" % (tag, m.full_name, v, m.capital, tot - m.capital), signature="bt:value!=cash+children")
            for c in m.children.values():
                if m.fixed_income:
                    continue  # weights of a fixed-income strategy are fractions of notional (C17)
                exp = c.value / v if abs(v) >= 1e-16 else 0.0
                if not machine.close(c.weight, exp, 1.0, ab=1e-9):
                    raise Violation("%s: %s weight %r != %r" % (tag, c.full_name, c.weight, exp), signature="bt:weight")
        else:
            p = m.price
            exp = 0.0 if m.position == 0 else m.position * p * m.multiplier
            if not machine.close(m.value, exp, max(1.0, abs(exp))):
                raise Violation("%s: %s value %r != pos*price*mult %r" % (tag, m.full_name, m.value, exp), signature="bt:sec-value")


def case_backtest(ctx, spec):
    bt = ctx.bt
    key = "c01probe"
    seen = {"n": 0}

    def cb(algo, target):
        # observe the real tree only (paper copies have root != the backtest's strategy)
        if target.root is holder.get("root"):
            seen["n"] += 1
            check_tree_identities(bt, target.root, "probe@%s" % target.now)

    holder = {}
    interp.Probe.registry[key] = cb
    try:
        fam = spec.get("family")
        spec = {k_: v for k_, v in spec.items() if k_ != "family"}
        interp.seed_rngs(spec)
        b = interp.mk_backtest(bt, spec)
        holder["root"] = b.strategy
        try:
            import contextlib
            import io

            with contextlib.redirect_stdout(io.StringIO()):
                b.run()
        except Violation:
            raise
        except Exception as e:
            if any(k in str(e) for k in c10.DEP_DISCARD):
                raise Discard("dependency did not converge")
            if fam == "fixed_income_lazy_securities_created_late" and "price is NaN" in str(e):
                # every price of this data set is finite: the position that 'has no price' was marked on the wrong row
                raise Violation("a fixed-income book built from the second date on raised %s: %s" % (type(e).__name__, str(e)[:200]), signature="c01:lazy-fi-created-late")
            raise Discard("run raised (C10's business): %s" % type(e).__name__)
    finally:
        interp.Probe.registry.pop(key, None)
    s = b.strategy
    check_tree_identities(bt, s, "end")
    # every date: recorded rows satisfy the identities among themselves
    members = s.members
    for m in members:
        if isinstance(m, bt.core.StrategyBase):
            tot = np.asarray(m.cash, dtype=float).copy()
            for c in m.children.values():
                tot = tot + np.asarray(c.values, dtype=float)
            v = np.asarray(m.values, dtype=float)
            bad = np.abs(v - tot) > 1e-9 * np.maximum(np.abs(v), spec.get("initial_capital", 1e6)) + 1e-7
            if bad.any():
                i = int(np.argmax(bad))
                raise Violation("recorded rows: %s values[%d]=%r != cash+children %r" % (m.full_name, i, v[i], tot[i]), signature="bt:rows-value")
        else:
            pos = np.asarray(m.positions, dtype=float)
            pr = np.asarray(m.prices, dtype=float)
            v = np.asarray(m.values, dtype=float)
            exp = np.where(pos == 0, 0.0, pos * pr * m.multiplier)
            bad = np.abs(v - exp) > 1e-9 * np.maximum(np.abs(v), 1.0) + 1e-7
            if bad.any():
                i = int(np.argmax(bad))
                raise Violation("recorded rows: %s values[%d]=%r != pos*price*mult %r" % (m.full_name, i, v[i], exp[i]), signature="bt:rows-sec")
    nt = c10.n_trades(bt, b)
    return {"nontrivial": nt > 0 and seen["n"] > 0, "labels": gen.spec_labels(spec) + (["family=" + fam] if fam else [])}


@st.composite
def probe_spec(draw):
    k = draw(st.integers(0, 7))
    if k == 0:
        # fixed-income books: coupons and holding costs swept into cash, hedge securities, notional schedules
        from . import c17

        spec = draw(c17.run_spec())
        lazy_kid = any(isinstance(c, dict) and c.get("lazy") for _, nd_ in gen.walk_nodes(spec["tree"]) for c in nd_.get("children") or [])
        spec = {k_: v for k_, v in spec.items() if k_ not in ("kinds", "weights", "nested", "target_sub")}
        spec["family"] = "fixed_income"
        if lazy_kid and len(spec["dates"]) >= 3 and not any(a[0] == "TradeNoUpdate" for a in spec["tree"]["algos"]):
            # the book is only built from the second date on: securities declared lazily are created - and marked for the first time -
            # on a date that is not the first row of the data
            spec["tree"]["algos"].insert(1, ["RunAfterDate", {"date": spec["dates"][0]}])
            spec["family"] = "fixed_income_lazy_securities_created_late"
    elif k == 1:
        # leveraged market-value books, some of coupon-paying or hedge securities, some going bankrupt
        from . import c16

        spec = draw(c16.run_spec(kinds=("flat", "nested")))
        spec = {k_: v for k_, v in spec.items() if k_ not in ("kind", "carry", "two_step", "ruinous_fee", "hedge_secs", "exact_zero")}
        spec["family"] = "leveraged"
    else:
        spec = draw(gen.backtest_spec())
    nodes = list(gen.walk_nodes(spec["tree"]))
    _, nd = nodes[draw(st.integers(0, len(nodes) - 1))]
    algos = nd["algos"]
    algos.insert(draw(st.integers(0, len(algos))), ["Probe", {"key": "c01probe", "run_always": True}])
    return spec


# ---- sub-strategies created inside a live tree ---------------------------------------------------------
@st.composite
def dynamic_spec(draw):
    return {
        "prior": {t: draw(st.sampled_from([0.0, 0.1, 0.3, -0.2])) for t in ["a", "b"]},
        "pending": draw(st.sampled_from([None, "adjust", "allocate"])),
        "pattern": draw(st.sampled_from(["update_child", "update_child", "none"])),
        "kids": draw(st.lists(st.sampled_from(["a", "b", "c"]), min_size=1, max_size=3, unique=True)),
        "then": draw(st.lists(st.sampled_from(["alloc_root", "alloc_new", "trade_new", "next", "read_new"]), min_size=1, max_size=5)),
        "integer": draw(st.booleans()),
        "child_trades": draw(st.booleans()),
        "fee": draw(st.sampled_from([None, 25.0])),
    }


def case_dynamic(ctx, spec):
    """the repository's dynamic-strategy pattern: Strategy(name, children=[...], parent=live_parent); setup_from_parent(); update(parent.now)
    - or no update at all - followed by allocations and trades; the balance-sheet identities hold whenever the tree is looked at"""
    bt = ctx.bt
    import pandas as pd

    dts = pd.to_datetime(["2021-03-01", "2021-03-02", "2021-03-03", "2021-03-04"])
    data = pd.DataFrame({"a": [17.25, 17.5, 17.0, 18.0], "b": [101.3, 100.9, 102.2, 99.0], "c": [9.99, 10.01, 10.4, 10.2]}, index=dts)
    root = bt.core.Strategy("root", [], children=["a", "b"])
    root.setup(data)
    root.use_integer_positions(bool(spec["integer"]))
    if spec.get("fee"):
        root.set_commissions(interp.Fee({"kind": "fixed", "f": spec["fee"]}))
    root.adjust(1e6)
    root.update(dts[0])
    for t, w in spec["prior"].items():
        if w:
            root.rebalance(w, t, base=1e6)
    root.update(dts[0])
    i = 1
    root.update(dts[i])
    if spec["pending"] == "adjust":
        root.adjust(5e4)
    elif spec["pending"] == "allocate":
        root.allocate(2e4, child="a")
    A = bt.algos
    child_algos = [A.SelectAll(), A.WeighEqually(), A.Rebalance()] if spec.get("child_trades") else []
    new = bt.core.Strategy("dyn", child_algos, children=list(spec["kids"]), parent=root)
    new.setup_from_parent()
    if spec["pattern"] == "update_child" and spec["pending"] is None:
        new.update(root.now)
    check_tree_identities(bt, root, "right after creating the sub-strategy (%s)" % spec["pattern"])
    for k, what in enumerate(spec["then"]):
        if what == "alloc_root":
            root.allocate(1e4)
        elif what == "alloc_new":
            root.allocate(5e4, child="dyn")
        elif what == "trade_new":
            if new.value > 1000:
                new.allocate(0.5 * new.value, child=spec["kids"][0])
        elif what == "next":
            if i + 1 < len(dts):
                i += 1
                root.update(dts[i])
        else:
            new.value, new.weight, new.price
        if what in ("alloc_new", "next") and spec.get("child_trades"):
            root.run()  # the newcomer's own stack (and that of its shadow copy) trades
        check_tree_identities(bt, root, "step %d (%s) after creating a sub-strategy" % (k, what))
        # what the parent sees as the newcomer's price in its universe is the newcomer's index, on its first date as on any other
        px = new.price
        root.value
        seen = float(root._universe.loc[root.now, "dyn"])
        if not (abs(seen - px) <= 1e-12 * max(1.0, abs(px))):
            raise Violation("step %d (%s): the parent's universe shows %r for the new sub-strategy on %s, its index is %r" % (k, what, seen, root.now, px), signature="dynamic:universe-cell")
        if what == "alloc_root" and abs(new.value) > 1e-9 and "alloc_new" not in spec["then"][:k]:
            raise Violation("allocating to the parent pushed %r into the just-created, empty sub-strategy (weights are value / parent value)" % new.value, signature="dynamic:alloc-spread")
    return {"nontrivial": True, "labels": ["pattern=" + spec["pattern"], "pending=%s" % spec["pending"]] + (["newcomer_trades"] if spec.get("child_trades") else []) + (["fee"] if spec.get("fee") else [])}


SUBS = {"history": case_history, "backtest": case_backtest, "dynamic": case_dynamic}
STRATS = {"history": machine.history_spec, "backtest": probe_spec, "dynamic": dynamic_spec}


def shard(ctx):
    run_sub(ctx, "history", machine.history_spec(), lambda s: case_history(ctx, s), ctx.n(1600, 30000))
    run_sub(ctx, "backtest", probe_spec(), lambda s: case_backtest(ctx, s), ctx.n(320, 5000))
    run_sub(ctx, "dynamic", dynamic_spec(), lambda s: case_dynamic(ctx, s), ctx.n(800, 10000))
