"""C14 Selection algos select exactly the documented, tradable set."""
import datetime as dt
import random
import re

import numpy as np
import pandas as pd
from hypothesis import strategies as st

from .. import gen, interp
from ..harness import Discard, Violation, run_sub

RULE = (
    "Per selection algo (SelectAll, SelectThese, SelectHasData, SelectN, SelectMomentum/StatTotalReturn, SetStat, SelectWhere, SelectRandomly, SelectRegex, SelectTypes, SelectActive, "
    "ResolveOnTheRun): generated universes (late listings, NaN gaps, zero and negative prices, ties through rounding, declared or undeclared children), a strategy set up through a "
    "Backtest (synthetic row included) and stepped to a generated date, generated prior temp['selected']/temp['stat'], all flag/parameter combinations; temp['selected'] (or "
    "temp['stat']) right after the call is compared with an independent reference computed on the raw arrays (ranked selection by a validity predicate so ties cannot false-alarm). "
    "SelectActiveRun: real backtests over explicitly declared securities with maturity dates, a date-varying signal, ClosePositionsAfterDates in front and SelectActive in the stack: from its close date on a security is never selected again, whether it was held when it matured or not. "
    "non-trivial = at least one ticker filtered out by the rule under test and one kept. distinct = distinct spec hashes."
)
ASSUMPTIONS = [
    "include_no_data=True disables both tradability filters (consistent across the algos' implementations; the statement pins the default only)",
    "look-back windows are at least as long as the largest calendar gap, so a window that starts inside the data is never empty",
    "signal/stat/alias frames only name tickers of the strategy's universe",
]

ALGOS = ["SelectAll", "SelectThese", "SelectHasData", "SelectN", "SelectMomentum", "SetStat", "SelectWhere", "SelectRandomly", "SelectRegex", "SelectTypes", "SelectActive", "ResolveOnTheRun", "StatTotalReturn"]

PX = st.sampled_from([None, None, 0.0, -1.5, 10.0, 10.0, 10.5, 11.0, 9.99, 100.0, 100.0, 101.25, 55.5, 3.0])


@st.composite
def universe(draw, min_n=3, max_n=14):
    ds = draw(gen.dates(min_n, max_n, kinds=("bday", "daily", "mixed", "sparse")))
    n = len(ds)
    nt = draw(st.integers(2, 6))
    tickers = gen.TICKERS[:nt]
    pr = {}
    for t in tickers:
        col = [draw(PX) for _ in range(n)]
        late = draw(st.integers(0, 3))
        if late == 0:
            k = draw(st.integers(0, n - 1))
            for i in range(k):
                col[i] = None
        pr[t] = col
    declared = None
    if draw(st.booleans()):
        declared = draw(st.lists(st.sampled_from(tickers), min_size=1, max_size=nt, unique=True))
    return ds, pr, tickers, declared


@st.composite
def case_spec(draw, algo=None):
    ds, pr, tickers, declared = draw(universe())
    n = len(ds)
    uni = [t for t in tickers if (declared is None or t in declared)]
    algo = algo or draw(st.sampled_from(ALGOS))
    i = draw(st.integers(0, n - 1))
    flags = {}
    if draw(st.booleans()):
        flags["include_no_data"] = draw(st.booleans())
    if draw(st.booleans()):
        flags["include_negative"] = draw(st.booleans())
    spec = {"dates": ds, "prices": pr, "declared": declared, "algo": algo, "at": i, "flags": flags, "frames": {}, "params": {}, "rng_seed": draw(st.integers(0, 10**6))}
    prior = draw(st.sampled_from(["absent", "some", "some", "empty", "all"]))
    if prior == "some":
        spec["prior_selected"] = draw(st.lists(st.sampled_from(uni), min_size=1, max_size=len(uni), unique=True))
    elif prior == "empty":
        spec["prior_selected"] = []
    elif prior == "all":
        spec["prior_selected"] = list(uni)
    g = gen.max_gap_days(ds)
    lb = {"days": draw(st.integers(g + 1, g + 30))}
    lag = {"days": draw(st.sampled_from([0, 0, 1, 2, 3, 7]))}
    p = spec["params"]
    if algo == "SelectThese":
        p["tickers"] = draw(st.lists(st.sampled_from(uni), min_size=0, max_size=len(uni), unique=True))
    elif algo == "SelectHasData":
        p["lookback"] = {"days": draw(st.integers(1, g + 30))}
        # left out, the documented default applies: ffn.get_num_days_required(lookback), in general not a whole number
        p["min_count"] = draw(st.one_of(st.integers(0, 5), st.none(), st.none()))
    elif algo in ("SelectN", "SelectMomentum"):
        p["n"] = draw(st.one_of(st.integers(0, len(uni) + 1), st.sampled_from([0.25, 0.5, 0.34, 0.99])))
        p["sort_descending"] = draw(st.booleans())
        p["all_or_none"] = draw(st.booleans())
        if algo == "SelectN":
            p["filter_selected"] = draw(st.booleans())
            spec["stat"] = {t: draw(st.sampled_from([None, 0.1, 0.1, 0.2, -0.3, 0.0, 1.5, 0.2])) for t in draw(st.lists(st.sampled_from(uni), min_size=0, max_size=len(uni), unique=True))}
        else:
            p["lookback"] = lb
            p["lag"] = lag
            if "prior_selected" not in spec:
                spec["prior_selected"] = list(uni)
    elif algo == "StatTotalReturn":
        p["lookback"] = lb
        p["lag"] = lag
        if "prior_selected" not in spec:
            spec["prior_selected"] = list(uni)
    elif algo == "SetStat":
        idx = sorted(draw(st.lists(st.integers(0, n - 1), min_size=1, max_size=n, unique=True)))
        spec["frames"]["st"] = {"kind": "frame", "dates": [ds[k] for k in idx], "cols": {t: [draw(st.sampled_from([None, 0.5, -0.5, 1.0, 2.0])) for _ in idx] for t in uni}}
        p["frame"] = "st"
        p["by_name"] = draw(st.booleans())
        p["lag"] = lag
    elif algo == "SelectWhere":
        idx = sorted(draw(st.lists(st.integers(0, n - 1), min_size=1, max_size=n, unique=True))) if draw(st.booleans()) else list(range(n))
        # a lagged or masked indicator ((data > x).shift(1), a signal undefined before a listing) has missing cells: those are not True
        cell = st.sampled_from([True, False, None]) if draw(st.integers(0, 2)) == 0 else st.booleans()
        spec["frames"]["sig"] = {"kind": "frame", "dtype": "bool", "dates": [ds[k] for k in idx], "cols": {t: [draw(cell) for _ in idx] for t in uni}}
        p["frame"] = "sig"
        p["by_name"] = draw(st.booleans())
    elif algo == "SelectRandomly":
        p["n"] = draw(st.one_of(st.none(), st.integers(0, len(uni) + 1)))
    elif algo == "SelectRegex":
        p["regex"] = draw(st.sampled_from(["^[a-c]$", "[b-f]", "a|e", ".", "^$", "c", "a", "^a", "c$", "[0-9]", "_"]))
        # the algo only filters names, so names need not be tickers of the universe
        spec["prior_selected"] = draw(st.lists(st.sampled_from(uni + ["xa", "ab", "bond_c", "a1", "C"]), min_size=0, max_size=6, unique=True))
    elif algo == "SelectTypes":
        spec["child_kinds"] = {t: draw(st.sampled_from(["Security", "SecurityBase", "CouponPayingSecurity", "HedgeSecurity", "FixedIncomeSecurity", "lazy"])) for t in uni}
        p["include"] = draw(st.lists(st.sampled_from(["Node", "SecurityBase", "Security", "FixedIncomeSecurity", "CouponPayingSecurity", "HedgeSecurity", "StrategyBase"]), min_size=1, max_size=3, unique=True))
        p["exclude"] = draw(st.lists(st.sampled_from(["Security", "HedgeSecurity", "CouponPayingSecurity", "FixedIncomeSecurity"]), min_size=0, max_size=2, unique=True))
        # the docstring asks for lists of types, the defaults are tuples
        p["types_as"] = draw(st.sampled_from(["tuple", "list"]))
        if draw(st.booleans()):
            # the strategy also has a sub-strategy with securities of its own: those are the sub-strategy's children, not this strategy's
            spec["sub_kinds"] = {t: draw(st.sampled_from(["Security", "CouponPayingSecurity", "HedgeSecurity", "FixedIncomeSecurity"])) for t in draw(st.lists(st.sampled_from(uni), min_size=1, max_size=len(uni), unique=True))}
    elif algo == "SelectActive":
        spec["closed"] = draw(st.lists(st.sampled_from(uni), max_size=len(uni), unique=True))
        spec["rolled"] = draw(st.one_of(st.none(), st.lists(st.sampled_from(uni), max_size=len(uni), unique=True)))
        if "prior_selected" not in spec:
            spec["prior_selected"] = list(uni)
    elif algo == "ResolveOnTheRun":
        aliases = ["otr1", "otr2"][: draw(st.integers(1, 2))]
        spec["frames"]["otr"] = {"kind": "frame", "dtype": "obj", "cols": {al: [draw(st.sampled_from(uni)) for _ in range(n)] for al in aliases}}
        p["frame"] = "otr"
        sel = draw(st.lists(st.sampled_from(aliases + uni), min_size=0, max_size=4, unique=True))
        spec["prior_selected"] = sel
    # what an earlier algo leaves in temp['selected'] is a list (most algos) or a pandas Index (SelectAll(include_no_data=True) hands over the
    # universe's columns)
    spec["prior_as"] = draw(st.sampled_from(["list", "list", "index"]))
    return spec


def _ts(d):
    return dt.datetime.fromisoformat(d)


def tradable(v, flags):
    """reference tradability filter on a raw value (None = missing)"""
    if flags.get("include_no_data", False):
        return True
    if v is None:
        return False
    if flags.get("include_negative", False):
        return True
    return v > 0


def build(bt, spec):
    ds, pr = spec["dates"], spec["prices"]
    data = interp.mk_frame(ds, pr)
    frames = {}
    for nm, f in spec["frames"].items():
        if f.get("dtype") == "obj":
            frames[nm] = pd.DataFrame(f["cols"], index=interp.mk_dates(f.get("dates", ds)))
        else:
            frames[nm] = interp.mk_frame(f.get("dates", ds), f["cols"], dtype=float if f.get("dtype", "float") == "float" else None)
    children = None
    if spec.get("child_kinds"):
        children = []
        for t in spec["declared"] or sorted(spec["child_kinds"]):
            k = spec["child_kinds"].get(t, "lazy")
            children.append(t if k == "lazy" else getattr(bt.core, k)(t))
    elif spec["declared"] is not None:
        children = list(spec["declared"])
    if spec.get("sub_kinds"):
        children = (children or []) + [bt.Strategy("zsub", [], children=[getattr(bt.core, k)(t) for t, k in sorted(spec["sub_kinds"].items())])]
    s = bt.Strategy("s", [], children=children)
    add = dict(frames)
    if (spec.get("child_kinds") and any(k == "CouponPayingSecurity" for k in spec["child_kinds"].values())) or any(k == "CouponPayingSecurity" for k in (spec.get("sub_kinds") or {}).values()):
        add["coupons"] = data * 0.0
    b = bt.Backtest(s, data, additional_data=add or None, progress_bar=False)
    strat = b.strategy
    strat.setup(b.data, **b.additional_data)
    strat.adjust(1e6)
    for d in b.dates[: spec["at"] + 2]:
        strat.update(d)
    return b, strat, frames


def case_select(ctx, spec):
    bt = ctx.bt
    A = bt.algos
    algo_name = spec["algo"]
    p = spec["params"]
    flags = spec["flags"]
    try:
        b, strat, frames = build(bt, spec)
    except Exception as e:
        raise Discard("setup raised %s" % type(e).__name__)
    ds, pr = spec["dates"], spec["prices"]
    i = spec["at"]
    now = _ts(ds[i])
    tickers = sorted(pr)
    uni = [t for t in tickers if spec["declared"] is None or t in spec["declared"]]
    ucols = list(strat.universe.columns)
    if sorted(ucols) != sorted(uni + (["zsub"] if spec.get("sub_kinds") else [])):
        raise Violation("universe columns %s != declared tickers %s" % (ucols, uni), signature="universe-scope")
    row = {t: pr[t][i] for t in uni}
    strat.temp = {}
    strat.perm = {}
    if "prior_selected" in spec:
        strat.temp["selected"] = list(spec["prior_selected"])
        if spec.get("prior_as") == "index":
            strat.temp["selected"] = pd.Index(spec["prior_selected"], dtype=object)
    if "stat" in spec:
        strat.temp["stat"] = pd.Series({k: (np.nan if v is None else v) for k, v in spec["stat"].items()}, dtype=float)
    prior = spec.get("prior_selected")
    interp.seed_rngs(spec)
    sig = "c14:" + algo_name

    def fr(pp):
        return interp._frame_arg(bt, pp, spec, frames)

    try:
        if algo_name == "SelectAll":
            algo = A.SelectAll(**flags)
        elif algo_name == "SelectThese":
            algo = A.SelectThese(list(p["tickers"]), **flags)
        elif algo_name == "SelectHasData":
            algo = A.SelectHasData(lookback=interp.mk_offset(p["lookback"]), **dict(flags, **({} if p["min_count"] is None else {"min_count": p["min_count"]})))
        elif algo_name == "SelectN":
            algo = A.SelectN(p["n"], sort_descending=p["sort_descending"], all_or_none=p["all_or_none"], filter_selected=p["filter_selected"])
        elif algo_name == "SelectMomentum":
            algo = A.SelectMomentum(p["n"], lookback=interp.mk_offset(p["lookback"]), lag=interp.mk_offset(p["lag"]), sort_descending=p["sort_descending"], all_or_none=p["all_or_none"])
        elif algo_name == "StatTotalReturn":
            algo = A.StatTotalReturn(lookback=interp.mk_offset(p["lookback"]), lag=interp.mk_offset(p["lag"]))
        elif algo_name == "SetStat":
            algo = A.SetStat(fr(p), lag=interp.mk_offset(p["lag"]))
        elif algo_name == "SelectWhere":
            algo = A.SelectWhere(fr(p), **flags)
        elif algo_name == "SelectRandomly":
            algo = A.SelectRandomly(n=p["n"], **flags)
        elif algo_name == "SelectRegex":
            algo = A.SelectRegex(p["regex"])
        elif algo_name == "SelectTypes":
            box = list if p.get("types_as") == "list" else tuple
            algo = A.SelectTypes(include_types=box(getattr(bt.core, t) for t in p["include"]), exclude_types=box(getattr(bt.core, t) for t in p["exclude"]))
        elif algo_name == "SelectActive":
            algo = A.SelectActive()
            strat.perm["closed"] = set(spec["closed"])
            if spec["rolled"] is not None:
                strat.perm["rolled"] = set(spec["rolled"])
        elif algo_name == "ResolveOnTheRun":
            algo = A.ResolveOnTheRun(p["frame"], **flags)
        ret = algo(strat)
    except Exception as e:
        raise Violation("%s(%s, flags=%s) raised %s: %s" % (algo_name, p, flags, type(e).__name__, str(e)[:150]), signature=sig + ":raises")
    got = strat.temp.get("selected")
    got_l = None if got is None else list(got)

    def expect_set(exp, what="selected"):
        if got_l is None:
            raise Violation("%s left no temp['selected'] (expected %s)" % (algo_name, sorted(exp)), signature=sig + ":none")
        if len(got_l) != len(set(got_l)):
            raise Violation("%s selected duplicates: %s" % (algo_name, got_l), signature=sig + ":dups")
        if set(got_l) != set(exp):
            raise Violation(
                "%s(%s, flags=%s) at %s with prior %s selected %s, expected %s (row %s)" % (algo_name, p, flags, ds[i], prior, sorted(got_l), sorted(exp), row), signature=sig + ":set"
            )

    filtered_out = kept = 0
    labs = [algo_name]
    if algo_name == "SelectAll":
        exp = [t for t in uni if tradable(row[t], flags)]
        expect_set(exp)
        kept, filtered_out = len(exp), len(uni) - len(exp)
    elif algo_name == "SelectThese":
        exp = [t for t in p["tickers"] if tradable(row[t], flags)]
        expect_set(exp)
        kept, filtered_out = len(exp), len(p["tickers"]) - len(exp)
    elif algo_name == "SelectHasData":
        base = prior if prior is not None else uni
        t_lo = now - dt.timedelta(days=p["lookback"]["days"])
        exp = []
        for t in base:
            cnt = sum(1 for k in range(0, i + 1) if _ts(ds[k]) >= t_lo and pr[t][k] is not None)
            need = p["min_count"] if p["min_count"] is not None else bt.ffn.get_num_days_required(interp.mk_offset(p["lookback"]))
            if cnt >= need and tradable(row[t], flags):
                exp.append(t)
        if p["min_count"] is None:
            labs.append("default_min_count")
        expect_set(exp)
        kept, filtered_out = len(exp), len(base) - len(exp)
    elif algo_name in ("SelectN", "SelectMomentum"):
        if algo_name == "SelectN":
            stat = {k: v for k, v in spec["stat"].items() if v is not None}
            if p["filter_selected"] and prior is not None:
                stat = {k: v for k, v in stat.items() if k in prior}
        else:
            stat = ref_total_return(spec, prior)
            if stat is None:  # window starts before the data: StatTotalReturn returns False, selection untouched
                if ret:
                    raise Violation("SelectMomentum returned True although the window starts before the data", signature=sig + ":early")
                if got_l != list(prior):
                    raise Violation("SelectMomentum changed the selection although its statistic was not available", signature=sig + ":early-sel")
                return {"nontrivial": False, "labels": labs + ["early"]}
            stat = {k: v for k, v in stat.items() if v is not None}
        n = p["n"]
        keep_n = n if n >= 1 else int(n * len(stat))
        k_exp = min(keep_n, len(stat))
        if p["all_or_none"] and len(stat) < keep_n:
            k_exp = 0
        if got_l is None or len(got_l) != len(set(got_l)) or len(got_l) != k_exp or not set(got_l) <= set(stat):
            raise Violation("%s(%s) from stat %s selected %s, expected %d of them" % (algo_name, p, stat, got_l, k_exp), signature=sig + ":size")
        if got_l:
            inc = [stat[t] for t in got_l]
            exc = [v for t, v in stat.items() if t not in got_l]
            if exc:
                if p["sort_descending"] and max(exc) > min(inc) + 1e-12:
                    raise Violation("%s(%s): excluded %s has a better (higher) statistic than an included one; stat %s selected %s" % (algo_name, p, max(exc), stat, got_l), signature=sig + ":rank")
                if not p["sort_descending"] and min(exc) < max(inc) - 1e-12:
                    raise Violation("%s(%s): excluded %s has a better (lower) statistic than an included one; stat %s selected %s" % (algo_name, p, min(exc), stat, got_l), signature=sig + ":rank")
        kept, filtered_out = len(got_l), len(stat) - len(got_l)
    elif algo_name == "StatTotalReturn":
        stat = ref_total_return(spec, prior)
        gstat = strat.temp.get("stat")
        if stat is None:
            if ret:
                raise Violation("StatTotalReturn returned True although the window starts before the data", signature=sig + ":early")
            return {"nontrivial": False, "labels": labs + ["early"]}
        if gstat is None:
            raise Violation("StatTotalReturn left no temp['stat']", signature=sig + ":none")
        for t in prior:
            e = stat[t]
            g = gstat.get(t, np.nan)
            if e is None or not np.isfinite(e):
                if g == g and np.isfinite(g) and e is None:
                    raise Violation("StatTotalReturn %s: %s should be undefined (window %s) but is %r" % (p, t, window_rows(spec)[0:1], g), signature=sig + ":nan")
            elif not (abs(g - e) <= 1e-9 * max(1.0, abs(e))):
                raise Violation("StatTotalReturn(%s) at %s: %s total return %r, expected %r over rows %s" % (p, ds[i], t, g, e, window_rows(spec)), signature=sig + ":value")
        kept = sum(1 for t in prior if stat[t] is not None)
        filtered_out = len(prior) - kept
    elif algo_name == "SetStat":
        t0 = now - dt.timedelta(days=p["lag"]["days"])
        f = spec["frames"]["st"]
        fdates = [_ts(d) for d in f["dates"]]
        cols = f["cols"]
        if p["by_name"] and f["dates"] == ds:
            # a frame bound by name that shares the data's index is given the synthetic all-NaN first row by Backtest
            fdates = [_ts(ds[0]) - dt.timedelta(days=1)] + fdates
            cols = {t: [None] + list(v) for t, v in cols.items()}
        if t0 in fdates:
            k = fdates.index(t0)
            if not ret:
                raise Violation("SetStat returned False although %s is in the stat index" % t0, signature=sig + ":ret")
            gstat = strat.temp.get("stat")
            for t in uni:
                e = cols[t][k]
                g = gstat[t]
                if (e is None) != (g != g) or (e is not None and g != e):
                    raise Violation("SetStat lag %s at %s: stat[%s]=%r, expected %r (row of %s)" % (p["lag"], ds[i], t, g, e, t0), signature=sig + ":value")
            kept, filtered_out = 1, 1
        else:
            if ret:
                raise Violation("SetStat returned True although %s is not in the stat index" % t0, signature=sig + ":ret")
    elif algo_name == "SelectWhere":
        f = spec["frames"]["sig"]
        fdates = [_ts(d) for d in f["dates"]]
        if now in fdates:
            k = fdates.index(now)
            on = [t for t in uni if f["cols"][t][k] is True]
            exp = [t for t in on if tradable(row[t], flags)]
            expect_set(exp)
            kept, filtered_out = len(exp), len(uni) - len(exp)
        else:
            if got_l != (None if prior is None else list(prior)):
                raise Violation("SelectWhere changed the selection on a date missing from the signal: %s -> %s" % (prior, got_l), signature=sig + ":nodate")
    elif algo_name == "SelectRandomly":
        base = prior if prior is not None else uni
        pool = [t for t in base if tradable(row[t], flags)]
        n = p["n"]
        k_exp = len(pool) if n is None else min(n, len(pool))
        if got_l is None or len(got_l) != len(set(got_l)) or not set(got_l) <= set(pool) or len(got_l) != k_exp:
            raise Violation("SelectRandomly(n=%s, flags=%s) from pool %s (prior %s, row %s) selected %s, expected %d of the pool" % (n, flags, pool, prior, row, got_l, k_exp), signature=sig + ":set")
        kept, filtered_out = len(got_l), len(base) - len(pool)
    elif algo_name == "SelectRegex":
        exp = [t for t in prior if re.search(p["regex"], t)]
        expect_set(exp)
        kept, filtered_out = len(exp), len(prior) - len(exp)
    elif algo_name == "SelectTypes":
        exp = []
        hierarchy = {
            "Security": {"Node", "SecurityBase", "Security"},
            "SecurityBase": {"Node", "SecurityBase"},
            "FixedIncomeSecurity": {"Node", "SecurityBase", "FixedIncomeSecurity"},
            "CouponPayingSecurity": {"Node", "SecurityBase", "FixedIncomeSecurity", "CouponPayingSecurity"},
            "HedgeSecurity": {"Node", "SecurityBase", "HedgeSecurity"},
        }
        for t, k in spec["child_kinds"].items():
            if spec["declared"] is not None and t not in spec["declared"]:
                continue
            if k == "lazy":
                continue  # not a node of the tree until first traded
            kinds = hierarchy[k]
            if kinds & set(p["include"]) and not (kinds & set(p["exclude"])):
                if prior is None or t in prior:
                    exp.append(t)
        if spec.get("sub_kinds") and prior is None and {"Node", "StrategyBase"} & set(p["include"]):
            exp.append("zsub")  # the sub-strategy is a child (a node, a strategy); what it holds is not
            labs.append("nested_substrategy_child")
        elif spec.get("sub_kinds"):
            labs.append("nested_substrategy_child")
        expect_set(exp)
        kept, filtered_out = len(exp), len(spec["child_kinds"]) - len(exp)
    elif algo_name == "SelectActive":
        gone = set(spec["closed"]) | set(spec["rolled"] or [])
        exp = [t for t in prior if t not in gone]
        expect_set(exp)
        kept, filtered_out = len(exp), len(prior) - len(exp)
    elif algo_name == "ResolveOnTheRun":
        f = spec["frames"]["otr"]
        aliases = sorted(f["cols"])
        resolved = [f["cols"][a][i] for a in prior if a in aliases]
        exp = [t for t in dict.fromkeys(resolved) if tradable(row[t], flags)] + [t for t in prior if t not in aliases]
        if got_l is None or set(got_l) != set(exp):
            raise Violation("ResolveOnTheRun(flags=%s) at %s from %s resolved to %s, expected %s (aliases %s, row %s)" % (flags, ds[i], prior, got_l, exp, {a: f["cols"][a][i] for a in aliases}, row), signature=sig + ":set")
        kept, filtered_out = len(exp), len(prior) - len(exp) + sum(1 for a in prior if a in aliases)
        # the documented way to feed aliases is SelectThese(aliases, include_no_data=True); the same two instances are then called on
        # every date of a run, and each date resolves afresh (the on-the-run table rolls, securities mature)
        if any(a in aliases for a in prior):
            feeder = A.SelectThese(list(prior), include_no_data=True)
            resolver = A.ResolveOnTheRun(p["frame"], **flags)
            for j in range(i, len(ds)):
                strat.update(b.dates[j + 1])
                strat.temp = {}
                try:
                    feeder(strat)
                    resolver(strat)
                except Exception as e:
                    raise Violation("SelectThese + ResolveOnTheRun on %s raised %s: %s" % (ds[j], type(e).__name__, str(e)[:120]), signature=sig + ":raises")
                rowj = {t: pr[t][j] for t in uni}
                resj = [f["cols"][a][j] for a in prior if a in aliases]
                expj = [t for t in dict.fromkeys(resj) if tradable(rowj[t], flags)] + [t for t in prior if t not in aliases]
                gotj = list(strat.temp.get("selected") or [])
                if set(gotj) != set(expj):
                    raise Violation(
                        "SelectThese(%s, include_no_data=True) + ResolveOnTheRun(flags=%s) called on every date from %s: on %s resolved to %s, expected %s (aliases %s, row %s)" % (prior, flags, ds[i], ds[j], gotj, expj, {a: f["cols"][a][j] for a in aliases}, rowj),
                        signature=sig + ":sequence",
                    )
            labs.append("resolved_on_several_dates")
    # universe scoping
    if got_l is not None and algo_name in ("SelectAll", "SelectHasData", "SelectWhere", "SelectRandomly", "SelectMomentum"):
        extra = [t for t in got_l if t not in uni]
        if extra:
            raise Violation("%s selected tickers outside the strategy's universe: %s" % (algo_name, extra), signature=sig + ":scope")
    return {"nontrivial": kept > 0 and filtered_out > 0, "labels": labs}


def window_rows(spec):
    ds = spec["dates"]
    i = spec["at"]
    p = spec["params"]
    now = _ts(ds[i])
    t0 = now - dt.timedelta(days=p["lag"]["days"])
    lo = t0 - dt.timedelta(days=p["lookback"]["days"])
    syn = _ts(ds[0]) - dt.timedelta(days=1)
    rows = []
    if lo <= syn <= t0:
        rows.append(-1)  # synthetic all-NaN row
    rows += [k for k in range(0, i + 1) if lo <= _ts(ds[k]) <= t0]
    return rows


def ref_total_return(spec, selected):
    """None if the window starts before the data (algo returns False); else dict ticker -> return or None"""
    ds, pr = spec["dates"], spec["prices"]
    i = spec["at"]
    p = spec["params"]
    now = _ts(ds[i])
    t0 = now - dt.timedelta(days=p["lag"]["days"])
    syn = _ts(ds[0]) - dt.timedelta(days=1)
    if syn > t0:
        return None
    rows = window_rows(spec)
    out = {}
    for t in selected:
        if not rows:
            out[t] = None
            continue
        first = None if rows[0] == -1 else pr[t][rows[0]]
        last = None if rows[-1] == -1 else pr[t][rows[-1]]
        if first is None or last is None:
            out[t] = None
        elif first == 0:
            out[t] = None if last == 0 else (float("inf") if last > 0 else float("-inf"))
        else:
            out[t] = last / first - 1
    return out


# ---- SelectActive inside a run: what it filters on is kept by ClosePositionsAfterDates / RollPositionsAfterDates as the run goes ----------
@st.composite
def active_run_spec(draw):
    """explicitly declared securities with maturity dates, a signal that changes which of them are wanted from date to date (so a security
    may well be flat when it matures), ClosePositionsAfterDates in front of the stack and SelectActive in it (the fixed-income example's
    pattern): from its close date on a security is never selected again, held at that moment or not"""
    import datetime as dt

    ds = draw(gen.dates(5, 12, kinds=("bday", "daily")))
    n = len(ds)
    nt = draw(st.integers(2, 5))
    tickers = gen.TICKERS[:nt]
    pr = {t: draw(gen.price_path(n, vol=0.02, decimals=4)) for t in tickers}
    cd = {}
    for t in tickers:
        if draw(st.integers(0, 2)) > 0:
            k = draw(st.integers(1, n - 1))
            cd[t] = ds[k][:10] if draw(st.booleans()) else (dt.datetime.fromisoformat(ds[k]) - dt.timedelta(days=1)).strftime("%Y-%m-%d")
    if not cd:
        cd[tickers[0]] = ds[draw(st.integers(1, n - 1))][:10]
    sig = {t: [draw(st.booleans()) for _ in range(n)] for t in tickers}
    names = sorted(cd)
    # some of the others roll into a later name on a date of their own (on-the-run switches): rolled names are inactive as well
    rolls = {}
    for t in tickers[:-1]:
        if t not in cd and draw(st.integers(0, 2)) == 0:
            rolls[t] = {"date": ds[draw(st.integers(1, n - 1))][:10], "target": tickers[-1], "factor": 1.0}
    spec = {
        "dates": ds,
        "prices": pr,
        "rng_seed": 0,
        "frames": {"closes": {"kind": "table", "index": names, "cols": {"date": [cd[t] for t in names]}, "date_cols": ["date"]}, "sig": {"kind": "frame", "dtype": "bool", "cols": sig}},
        "additional": ["closes", "sig"],
        "integer_positions": draw(st.booleans()),
        "initial_capital": 1e6,
        "fee": {"kind": "none"},
        "close_dates": cd,
        "roll_dates": {t: r["date"] for t, r in rolls.items()},
        "signal": sig,
        "tree": {
            "name": "root",
            "kind": "Strategy",
            "algos": [["ClosePositionsAfterDates", {"frame": "closes"}]] + ([["RollPositionsAfterDates", {"frame": "rolls"}]] if rolls else []) + [["SelectWhere", {"frame": "sig"}], ["SelectActive", {}], ["Probe", {"key": "c14active"}], ["WeighEqually", {}], ["Rebalance", {}]],
            # constructed up front, or named by a string and created on first use: the same thing
            "children": [{"sec": t, "kind": "Security"} for t in tickers] if draw(st.booleans()) else list(tickers),
        },
    }
    if rolls:
        rn = sorted(rolls)
        spec["frames"]["rolls"] = {"kind": "table", "index": rn, "cols": {"date": [rolls[t]["date"] for t in rn], "target": [rolls[t]["target"] for t in rn], "factor": [rolls[t]["factor"] for t in rn]}, "date_cols": ["date"]}
        spec["additional"].append("rolls")
    return spec


def case_active_run(ctx, spec):
    import contextlib
    import io

    bt = ctx.bt
    holder = {}
    seen = []

    def cb(algo, target):
        if target is holder.get("root"):
            seen.append((target.now, list(target.temp.get("selected", [])), {c: ch.position for c, ch in target.children.items()}))

    interp.Probe.registry["c14active"] = cb
    base = {k: v for k, v in spec.items() if k not in ("close_dates", "signal", "roll_dates")}
    try:
        b = interp.mk_backtest(bt, base)
        holder["root"] = b.strategy
        with contextlib.redirect_stdout(io.StringIO()):
            try:
                b.run()
            except Exception as e:
                raise Violation("run raised %s: %s" % (type(e).__name__, str(e)[:200]), signature="c14:active-run:raises")
    finally:
        interp.Probe.registry.pop("c14active", None)
    ds = [pd.Timestamp(d) for d in spec["dates"]]
    cd = {t: pd.Timestamp(d) for t, d in spec["close_dates"].items()}
    cd.update({t: pd.Timestamp(d) for t, d in (spec.get("roll_dates") or {}).items()})  # inactive from that date on, like a matured name
    flat_at_maturity = False
    kept = dropped = 0
    for now, selected, pos in seen:
        i = ds.index(now)
        exp = [t for t in sorted(spec["prices"]) if spec["signal"][t][i] and not (t in cd and cd[t] <= now)]
        for t in cd:
            if cd[t] <= now and spec["signal"][t][i]:
                dropped += 1
        kept += len(exp)
        if sorted(selected) != exp:
            late = [t for t in selected if t in cd and cd[t] <= now]
            raise Violation(
                "on %s SelectActive (behind ClosePositionsAfterDates) left %s, expected %s; matured and still selected: %s (close dates %s; positions before today's trades %s)" % (now, sorted(selected), exp, late, {t: str(d.date()) for t, d in cd.items()}, pos),
                signature="c14:active-run:selected",
            )
    for t, d in cd.items():
        first = [i for i, x in enumerate(ds) if x >= d]
        if first and first[0] > 0:
            # was it flat on the first run at or after its close date?
            for now, selected, pos in seen:
                if now == ds[first[0]] and abs(pos.get(t, 0.0)) == 0:
                    flat_at_maturity = True
    return {"nontrivial": kept > 0 and dropped > 0, "labels": ["SelectActiveRun"] + (["flat_at_maturity_wanted_later"] if flat_at_maturity and dropped else []) + (["with_rolls"] if spec.get("roll_dates") else [])}


SUBS = {"select": case_select}
STRATS = {"select": case_spec}
SUBS["SelectActiveRun"] = case_active_run
STRATS["SelectActiveRun"] = active_run_spec
for _a in ALGOS:
    STRATS[_a] = (lambda a: (lambda: case_spec(algo=a)))(_a)
    SUBS[_a] = case_select


def shard(ctx):
    per = ctx.n(13000, 260000) // len(ALGOS) + 1
    for a in ALGOS:
        run_sub(ctx, a, case_spec(algo=a), lambda s: case_select(ctx, s), per)
    run_sub(ctx, "SelectActiveRun", active_run_spec(), lambda s: case_active_run(ctx, s), ctx.n(800, 12000))
