"""C16 Bankruptcy is detected, clean and terminal."""
import numpy as np
from hypothesis import strategies as st

from .. import gen, interp
from ..harness import Discard, Violation, bt_frame_signature, run_sub
from . import c02, c10

RULE = (
    "run: generated leveraged / short portfolios (target weights with gross exposure 1.5-6, long/short) on volatile price paths with jumps, in flat trees and in nested trees whose "
    "(calendar-gated) children are leveraged themselves, integer or fractional positions, any commission spec and spread, plus fixed-income roots as the negative class. A spy algo "
    "(run_always, first in the root stack) logs every run. Oracle (independent mark-to-market from the recorded end-of-date positions and cash): the flag date is the first date whose "
    "opening mark-to-market value or closing value is below zero; the root is flagged exactly then; on that date every position in the whole tree is closed at that date's prices "
    "(attribution identity with that date's prices, all positions zero), afterwards positions stay zero, value and cash stay constant and the spy is never called again; a root whose "
    "value never goes below zero is never flagged; sub-strategies and fixed-income strategies are never flagged and keep running. non-trivial = the value crosses zero. "
    "distinct = distinct spec hashes."
)
ASSUMPTIONS = ["cases whose minimum value is within 1e-6 x capital of zero are discarded as borderline (strict '< 0' with a 1e-16 tolerance in the code)"]
BUILDS = {"quick": ["py"], "thorough": ["py", "cy"]}
FLOORS = {"crosses_zero": ("run", 0.15), "nested": ("run", 0.15)}


@st.composite
def lev_weights(draw, ks, gross=None):
    gross = gross or draw(st.sampled_from([1.5, 2.0, 3.0, 4.0, 6.0]))
    raw = [draw(st.integers(1, 5)) for _ in ks]
    tot = float(sum(raw))
    return {k: round((gross * r / tot) * (1 if draw(st.integers(0, 2)) else -1), 4) for k, r in zip(ks, raw)}


@st.composite
def jumpy_prices(draw, n, tickers):
    out = {}
    for t in tickers:
        col = draw(gen.price_path(n, vol=draw(st.sampled_from([0.05, 0.15, 0.3])), decimals=4))
        if draw(st.booleans()):
            k = draw(st.integers(1, n - 1))
            f = draw(st.sampled_from([0.3, 0.5, 0.7, 1.5, 2.5]))
            col = [round(v * f, 4) if i >= k else v for i, v in enumerate(col)]
        out[t] = col
    return out


@st.composite
def run_spec(draw, kinds=("flat", "flat", "nested", "nested", "fi")):
    ds = draw(gen.dates(3, 12, kinds=("bday", "daily", "mixed")))
    n = len(ds)
    nt = draw(st.integers(1, 4))
    tickers = gen.TICKERS[:nt]
    pr = draw(jumpy_prices(n, tickers))
    kind = draw(st.sampled_from(list(kinds)))
    spy = ["Probe", {"key": "c16spy", "run_always": True}]
    z_ = draw(st.integers(0, 9)) if kind == "flat" else None
    if z_ == 1:
        # a 2x long book of a coupon-paying security whose price falls just below the level at which the positions are worth less than the
        # debt - by less than the carry that arrives in cash at that opening: the value of the date is above zero, the book is not bankrupt
        p0 = draw(st.sampled_from([100.0, 64.0, 20.0]))
        k = draw(st.integers(1, n - 1))
        gap, coupon = draw(st.sampled_from([(0.0005, 0.002), (0.001, 0.01), (0.01, 0.05)]))
        p1 = round(p0 * (0.5 - gap), 6)
        return {
            "dates": ds,
            "prices": {"a": [p0] * k + [p1] * (n - k)},
            "rng_seed": 0,
            "frames": {"coupons": {"kind": "frame", "cols": {"a": [round(p0 * coupon, 6)] * n}}},
            "additional": ["coupons"],
            "kind": "flat",
            "carry": True,
            "carry_saves": True,
            "tree": {"name": "root", "kind": "Strategy", "algos": [spy, ["RunOnce", {}], ["WeighSpecified", {"weights": {"a": 2.0}}], ["Rebalance", {}]], "children": [{"sec": "a", "kind": "CouponPayingSecurity"}]},
            "integer_positions": False,
            "initial_capital": 1e6,
            "fee": {"kind": "none"},
        }
    if z_ == 0:
        # a book whose value lands on exactly zero and stays there (2x long with the price halving, 1x short with the price doubling;
        # all amounts exact in binary floating point): zero is not below zero
        lev, p0, p1 = draw(st.sampled_from([(2.0, 16.0, 8.0), (2.0, 100.0, 50.0), (4.0, 64.0, 48.0), (-1.0, 16.0, 32.0), (-1.0, 50.0, 100.0)]))
        k = draw(st.integers(1, n - 1))
        return {
            "dates": ds,
            "prices": {"a": [p0] * k + [p1] * (n - k)},
            "rng_seed": 0,
            "frames": {},
            "additional": [],
            "kind": "flat",
            "exact_zero": True,
            "tree": {"name": "root", "kind": "Strategy", "algos": [spy, ["RunOnce", {}], ["WeighSpecified", {"weights": {"a": lev}}], ["Rebalance", {}]]},
            "integer_positions": draw(st.booleans()),
            "initial_capital": 1e6,
            "fee": {"kind": "none"},
        }
    gate = draw(st.sampled_from([["RunDaily", {}], ["RunOnce", {}], ["RunWeekly", {}], ["RunMonthly", {}]]))
    spec = {"dates": ds, "prices": pr, "rng_seed": 0, "frames": {}, "additional": [], "kind": kind}
    if kind == "flat":
        ks = draw(st.lists(st.sampled_from(tickers), min_size=1, max_size=nt, unique=True))
        w = draw(lev_weights(ks))
        node = {"name": "root", "kind": "Strategy", "algos": [spy, gate, ["WeighSpecified", {"weights": w}], ["Rebalance", {}]]}
        if draw(st.integers(0, 2)) == 0:
            # a market-value book of coupon-paying securities: the carry of the previous date arrives in cash at the opening of each date
            node["children"] = [{"sec": t, "kind": draw(st.sampled_from(["CouponPayingSecurity", "CouponPayingSecurity", "CouponPayingHedgeSecurity"]))} for t in tickers]
            spec["frames"]["coupons"] = {"kind": "frame", "cols": {t: [draw(st.sampled_from([0.0, 0.5, 2.0, 5.0, -1.0])) * gen.min_price({t: pr[t]}) / 50.0 for _ in range(n)] for t in tickers}}
            spec["additional"] = ["coupons"]
            spec["carry"] = True
        elif draw(st.integers(0, 2)) == 0:
            # hedge securities (zero notional by definition) in a market-value book are positions like any other
            node["children"] = [{"sec": t, "kind": draw(st.sampled_from(["Security", "HedgeSecurity"]))} for t in tickers]
            spec["hedge_secs"] = True
        if draw(st.integers(0, 2)) == 0:
            # a stack that trades in two steps: a bankruptcy declared during the first one must stop the second from re-opening anything
            ks2 = draw(st.lists(st.sampled_from(tickers), min_size=1, max_size=nt, unique=True))
            node["algos"] += [["WeighSpecified", {"weights": draw(lev_weights(ks2))}], ["Rebalance", {}]]
            spec["two_step"] = True
        spec["tree"] = node
    elif kind == "nested":
        subs = []
        names = []
        for i in range(draw(st.integers(1, 2))):
            ks = draw(st.lists(st.sampled_from(tickers), min_size=1, max_size=nt, unique=True))
            w = draw(lev_weights(ks, gross=draw(st.sampled_from([1.0, 2.0, 3.0]))))
            cg = draw(st.sampled_from([["RunDaily", {}], ["RunWeekly", {}], ["RunMonthly", {}]]))
            names.append("s%d" % (i + 1))
            hk = draw(st.sampled_from([["Security"], ["Security"], ["Security", "HedgeSecurity"], ["HedgeSecurity"]]))
            subs.append({"name": names[-1], "kind": "Strategy", "algos": [cg, ["WeighSpecified", {"weights": w}], ["Rebalance", {}]], "children": [t if k_ == "Security" else {"sec": t, "kind": k_} for t in ks for k_ in [draw(st.sampled_from(hk))]]})
            if "HedgeSecurity" in hk:
                spec["hedge_secs"] = True
        own = draw(st.lists(st.sampled_from(tickers), min_size=0, max_size=nt, unique=True))
        pw = draw(lev_weights(names + own, gross=draw(st.sampled_from([1.0, 1.5, 2.5, 4.0]))))
        for nm in names:
            pw[nm] = abs(pw[nm])
        spec["tree"] = {"name": "root", "kind": "Strategy", "algos": [spy, gate, ["WeighSpecified", {"weights": pw}], ["Rebalance", {}]], "children": subs + own}
    else:
        ks = draw(st.lists(st.sampled_from(tickers), min_size=1, max_size=nt, unique=True))
        w = draw(lev_weights(ks, gross=1.0))
        spec["frames"]["notl"] = {"kind": "series", "values": [1e6] * n}
        spec["additional"] = ["notl"]
        spec["tree"] = {"name": "root", "kind": "FixedIncomeStrategy", "algos": [spy, gate, ["WeighSpecified", {"weights": w}], ["SetNotional", {"frame": "notl"}], ["Rebalance", {}]], "children": ks}
    spec["integer_positions"] = draw(st.booleans())
    spec["initial_capital"] = draw(st.sampled_from([1e6, 1e5, 1e7])) if kind != "fi" else draw(st.sampled_from([1000.0, 1e6]))
    spec["fee"] = draw(gen.fee_spec(gen.min_price(pr)))
    if kind != "fi" and draw(st.integers(0, 5)) == 0:
        # ruinous ticket charges: the costs of trading alone can drive the value through zero
        spec["fee"] = {"kind": "fixed", "f": spec["initial_capital"] * draw(st.sampled_from([0.2, 0.6, 2.0]))}
        spec["ruinous_fee"] = True
    bo = draw(gen.bidoffer(n, tickers, pr))
    if bo is not None:
        spec["bidoffer"] = bo
    # the progress bar is a display option: the run covers every date with it as without it
    spec["progress_bar"] = draw(st.sampled_from([False, False, True]))
    return spec


def case_run(ctx, spec):
    bt = ctx.bt
    calls = []
    holder = {}

    def cb(algo, target):
        if target is holder.get("root"):
            calls.append(target.now)

    interp.Probe.registry["c16spy"] = cb
    try:
        b = interp.mk_backtest(bt, {k: v for k, v in spec.items() if k not in ("kind", "carry", "two_step", "ruinous_fee", "hedge_secs", "exact_zero", "carry_saves")})
        holder["root"] = b.strategy
        try:
            import contextlib
            import io

            with contextlib.redirect_stdout(io.StringIO()), contextlib.redirect_stderr(io.StringIO()):
                b.run()
        except ZeroDivisionError as e:
            # value exactly zero on one date (a total wipe-out is not 'below zero') and a loss on the next: bt refuses the return on a
            # zero base (C10) before the bankruptcy logic can act - the same measure-zero borderline that is discarded below
            vals = np.asarray(b.strategy._values, dtype=float)
            if (np.abs(vals[1:]) < 1e-6 * abs(spec["initial_capital"])).any():
                raise Discard("borderline zero")
            raise Violation("leveraged backtest raised %s: %s" % (type(e).__name__, str(e)[:200]), signature="c16:raises:" + bt_frame_signature(e))
        except Exception as e:
            raise Violation("leveraged backtest raised %s: %s" % (type(e).__name__, str(e)[:200]), signature="c16:raises:" + bt_frame_signature(e))
    finally:
        interp.Probe.registry.pop("c16spy", None)
    s = b.strategy
    cap = abs(spec["initial_capital"])
    dates = list(s.values.index)
    secs = [m for m in s.members if isinstance(m, bt.core.SecurityBase)]
    strats = [m for m in s.members if isinstance(m, bt.core.StrategyBase)]
    V = np.asarray(s.values, dtype=float)
    n = len(V)
    if n != len(spec["dates"]) + 1 or s.now != interp.mk_dates(spec["dates"])[-1]:
        raise Violation("the run ended on %s with %d recorded rows; the data has %d dates up to %s (bankrupt=%s, progress_bar=%s)" % (s.now, n, len(spec["dates"]), spec["dates"][-1], s.bankrupt, spec.get("progress_bar")), signature="c16:run-cut-short")
    cash_tot = sum(np.asarray(m.cash, dtype=float) for m in strats)
    pos = {m.full_name: np.asarray(m.positions, dtype=float) for m in secs}
    prc = {m.full_name: np.asarray(m.prices, dtype=float) for m in secs}
    # opening mark-to-market of date t: yesterday's cash and positions at today's prices
    M = np.zeros(n)
    M[0] = V[0]
    for t in range(1, n):
        m_ = cash_tot[t - 1]
        for sec in secs:
            p_ = pos[sec.full_name][t - 1]
            if p_ != 0:
                m_ += p_ * prc[sec.full_name][t] * sec.multiplier
        # carry accrued on the previous date is swept into cash at the opening of this one
        for sec in secs:
            if isinstance(sec, bt.core.CouponPayingSecurity):
                m_ += float(np.asarray(sec.coupons, dtype=float)[t - 1]) - float(np.asarray(sec.holding_costs, dtype=float)[t - 1])
        M[t] = m_
    labs = [spec["kind"]] + (["nested"] if spec["kind"] == "nested" else []) + (["carry"] if spec.get("carry") else []) + (["two_step"] if spec.get("two_step") else []) + (["ruinous_fee"] if spec.get("ruinous_fee") else []) + (["hedge_secs"] if spec.get("hedge_secs") else [])
    for m in strats:
        if m is not s and m.bankrupt:
            raise Violation("sub-strategy %s was flagged bankrupt" % m.full_name, signature="c16:sub-flagged")
    if spec["kind"] == "fi":
        if s.bankrupt:
            raise Violation("fixed-income strategy was flagged bankrupt (min value %r)" % V.min(), signature="c16:fi-flagged")
        if len(calls) != n - 1:
            raise Violation("fixed-income strategy stopped running: %d runs over %d dates (min value %r)" % (len(calls), n - 1, V.min()), signature="c16:fi-stopped")
        return {"nontrivial": bool(V.min() < 0), "labels": labs + (["crosses_zero"] if V.min() < 0 else [])}
    # values within rounding distance of zero are borderline (discarded); a value of exactly 0.0 is not: it is not below zero
    if any(0.0 < abs(x) < 1e-6 * cap for x in list(M) + list(V)):
        raise Discard("borderline zero")
    if any(x == 0.0 for x in list(M[1:]) + list(V[1:])):
        labs.append("value_exactly_zero")
    neg = [t for t in range(1, n) if M[t] < 0 or V[t] < 0]
    if not neg:
        if s.bankrupt:
            raise Violation("root flagged bankrupt although its value never went below zero (min opening %r, min closing %r)" % (M.min(), V.min()), signature="c16:spurious")
        if len(calls) != n - 1:
            raise Violation("solvent strategy ran %d times over %d dates" % (len(calls), n - 1), signature="c16:stopped")
        return {"nontrivial": False, "labels": labs}
    tb = neg[0]
    labs.append("crosses_zero")
    if not s.bankrupt:
        raise Violation("value went below zero on %s (opening %r, closing %r) but the strategy is not flagged bankrupt" % (dates[tb], M[tb], V[tb]), signature="c16:not-flagged")
    at_open = M[tb] < 0
    # algos: every date before tb; on tb only if the flag was raised after the algos ran; never after
    exp_calls = [d for i, d in enumerate(dates) if 1 <= i < tb] + ([] if at_open else [dates[tb]])
    if calls != exp_calls:
        extra = [d for d in calls if d not in exp_calls]
        missing = [d for d in exp_calls if d not in calls]
        raise Violation("bankrupt on %s (%s): algos ran on %s unexpectedly / did not run on %s" % (dates[tb], "at the opening mark" if at_open else "after trading", extra, missing), signature="c16:algos-after" if extra else "c16:algos-missing")
    # clean: all positions zero from the flag date on
    for sec in secs:
        p_ = pos[sec.full_name]
        if (p_[tb:] != 0).any():
            i = tb + int(np.argmax(p_[tb:] != 0))
            raise Violation("bankrupt on %s but %s still has position %r on %s" % (dates[tb], sec.full_name, p_[i], dates[i]), signature="c16:position-left")
    # terminal: value and cash constant afterwards
    for nm, arr in (("value", V), ("cash", np.asarray(s.cash, dtype=float))):
        if n > tb + 1 and np.abs(arr[tb + 1 :] - arr[tb]).max() > 1e-9 * cap:
            raise Violation("bankrupt on %s but root %s keeps changing: %s" % (dates[tb], nm, arr[tb:].tolist()), signature="c16:not-terminal:" + nm)
    # closed at that date's prices: P&L attribution over the flag date uses the flag date's prices
    c02.attribution(bt, s, cap, tag="bankruptcy")
    for sec in secs:
        o = np.asarray(sec.outlays, dtype=float)
        p_prev = pos[sec.full_name][tb - 1]
        if at_open and p_prev != 0:
            bo = np.asarray(sec.bidoffers_paid, dtype=float)[tb] if sec._bidoffer_set else 0.0
            exp = -p_prev * prc[sec.full_name][tb] * sec.multiplier + bo
            if abs(o[tb] - exp) > 1e-9 * cap + 1e-6:
                raise Violation("%s was liquidated for %r, expected %r = -position %r x the flag date's price %r (+ spread)" % (sec.full_name, o[tb], exp, p_prev, prc[sec.full_name][tb]), signature="c16:liquidation-price")
    return {"nontrivial": True, "labels": labs + (["at_open"] if at_open else ["after_trading"])}


SUBS = {"run": case_run}
STRATS = {"run": run_spec}


def shard(ctx):
    run_sub(ctx, "run", run_spec(), lambda s: case_run(ctx, s), ctx.n(2400, 30000))
