"""C07 Every node's cash ledger reconciles with its recorded flows, outlays and fees."""
import numpy as np
from hypothesis import strategies as st

from .. import gen, interp, machine
from ..harness import Discard, Violation, run_sub
from . import c01, c10

RULE = (
    "history: generated operation histories (see C01) with a spy on every executed trade: the parent's cash moves by exactly q*p*mult + half-spread (or custom-price difference) "
    "+ commission, the commission function is evaluated exactly once for the executed quantity at (q, p*mult), the recorded fees/flows/outlays/bid-offer rows of the date equal the "
    "reference model's accumulators after every operation, and at the end the per-node per-date ledger identity is recomputed from the recorded series. "
    "backtest: the same ledger identity on grammar-generated (flat and nested) backtests. bankrupt_backtest: the same identity on leveraged / short books that go bankrupt (the liquidation is trading like any other: booked on its own date, with its commissions, capital handed back by liquidated sub-strategies recorded as their flows). non-trivial = two or more trades in one security on one date, or a nested node trading. "
    "distinct = distinct spec hashes."
)
ASSUMPTIONS = ["CapitalFlow is only generated on the root (so capital passed to a sub-strategy equals its recorded flows)", "tolerance 1e-9 relative to capital + 1e-7"]
BUILDS = {"quick": ["py"], "thorough": ["py", "cy"]}
FLOORS = {"nested_trade": ("history", 0.1), "multi_trade_same_date": ("history", 0.05)}


def ledger_from_records(bt, root, cap, nonflow=None, direct=None, tag=""):
    """nonflow[path][i], direct[path][i]: driver-known amounts per date index (default 0)"""
    for m in root.members:
        if not isinstance(m, bt.core.StrategyBase):
            continue
        cash = np.asarray(m.cash.loc[: m.now], dtype=float)
        n = len(cash)
        flows = np.asarray(m.flows, dtype=float)
        fees = np.asarray(m.fees, dtype=float)
        out = np.zeros(n)
        sub = np.zeros(n)
        carry = np.zeros(n)
        for c in m.children.values():
            if isinstance(c, bt.core.StrategyBase):
                f = np.asarray(c.flows, dtype=float)
                d = np.zeros(n)
                if direct and c.full_name in direct:
                    d = np.asarray(direct[c.full_name][:n], dtype=float)
                sub += f - d
            else:
                o = np.asarray(c.outlays, dtype=float)
                out += o
                if isinstance(c, bt.core.CouponPayingSecurity):
                    cp = np.asarray(c.coupons, dtype=float) - np.asarray(c.holding_costs, dtype=float)
                    carry[1:] += cp[:-1]
        nf = np.zeros(n)
        if nonflow and m.full_name in nonflow:
            nf = np.asarray(nonflow[m.full_name][:n], dtype=float)
        lhs = np.diff(cash, prepend=0.0)
        rhs = flows + nf + carry - out - fees - sub
        bad = np.abs(lhs - rhs) > 1e-9 * cap + 1e-7
        if bad.any():
            i = int(np.argmax(bad))
            raise Violation(
                "%s ledger of %s at row %d: cash change %r != flows %r + nonflow %r + carry %r - outlays %r - fees %r - passed to sub-strategies %r"
                % (tag, m.full_name, i, lhs[i], flows[i], nf[i], carry[i], out[i], fees[i], sub[i]),
                signature="ledger",
            )
        # nothing of a trade is ever a flow: flows only from known sources is checked via the accumulators (history) / C03


def case_history(ctx, spec):
    res = c01.case_history(ctx, spec, groups=("trades", "accum"))
    return res


def case_history_full(ctx, spec):
    bt = ctx.bt
    try:
        run = machine.TreeRun(bt, spec)
    except ZeroDivisionError:
        raise Discard("zero base")
    labs = set(machine.history_labels(spec, None))
    per_date_trades = {}
    nested_trade = False
    try:
        for k, op in enumerate(spec["ops"]):
            tag = "op#%d %s" % (k, op)
            ok = run.step(op)
            if not ok:
                continue
            applied = run.apply_trades_to_model()
            run.root.value  # settle pending updates first: bankruptcy is only detected inside update
            if run.root.bankrupt:
                raise Discard("bankrupt")
            for t, msec, _, _, _ in applied:
                key = (run.i, msec.path)
                per_date_trades[key] = per_date_trades.get(key, 0) + 1
                if msec.parent.parent is not None:
                    nested_trade = True
            machine.check_trades(run, applied)
            machine.check_accumulators(run, tag)
            run.root.value
        M = run.model
        hist = M.hist + [M.snapshot_accumulators()]
        nonflow = {p: [h[p]["nonflow"] for h in hist] for p in M.by_path}
        direct = {p: [h[p]["direct_flow"] for h in hist] for p in M.by_path}
        # the root's own recorded flows are exactly the driver's flow adjustments on the root
        ledger_from_records(bt, run.root, abs(spec["capital"]), nonflow, direct, "history")
    except ZeroDivisionError:
        raise Discard("zero base")
    except (Violation, Discard):
        raise
    except Exception as e:
        from ..harness import bt_frame_signature

        raise Violation("history raised %s: %s" % (type(e).__name__, str(e)[:200]), signature="raises:" + bt_frame_signature(e))
    multi = any(v >= 2 for v in per_date_trades.values())
    if multi:
        labs.add("multi_trade_same_date")
    if nested_trade:
        labs.add("nested_trade")
    return {"nontrivial": multi or nested_trade, "labels": sorted(labs)}


def case_backtest(ctx, spec):
    bt = ctx.bt
    try:
        b = c10.run_backtest(bt, spec)
    except Exception as e:
        raise Discard("run raised (C10's business): %s" % type(e).__name__)
    s = b.strategy
    ledger_from_records(bt, s, abs(spec.get("initial_capital", 1e6)), tag="backtest")
    nested_trade = any(isinstance(m, bt.core.SecurityBase) and m.parent is not s and (np.asarray(m.outlays, dtype=float) != 0).any() for m in s.members)
    labs = gen.spec_labels(spec)
    if nested_trade:
        labs.append("nested_trade")
    return {"nontrivial": c10.n_trades(bt, b) >= 2, "labels": labs}


def bankrupt_spec():
    # leveraged / short books on jumpy prices (C16's generator): the liquidation of a bankrupt root - its trades, their commissions and the
    # capital handed back by liquidated sub-strategies - is booked on the date it happens like any other trading
    from . import c16

    return c16.run_spec(kinds=("flat", "flat", "nested")).map(lambda sp: {k: v for k, v in sp.items() if k not in ("kind", "carry", "two_step", "ruinous_fee", "hedge_secs", "exact_zero")})


def case_bankrupt_backtest(ctx, spec):
    bt = ctx.bt
    try:
        b = c10.run_backtest(bt, spec)
    except Exception as e:
        raise Discard("run raised (C10's business): %s" % type(e).__name__)
    s = b.strategy
    ledger_from_records(bt, s, abs(spec.get("initial_capital", 1e6)), tag="backtest that %s" % ("went bankrupt" if s.bankrupt else "stayed solvent"))
    labs = gen.spec_labels(spec) + (["bankrupt"] if s.bankrupt else [])
    costly = (np.asarray(s.fees, dtype=float) != 0).any() or bool(spec.get("bidoffer"))
    if s.bankrupt and costly:
        labs.append("bankrupt_with_costs")
    return {"nontrivial": bool(s.bankrupt and c10.n_trades(bt, b) >= 2), "labels": labs}


SUBS = {"history": case_history_full, "backtest": case_backtest, "bankrupt_backtest": case_bankrupt_backtest}
STRATS = {"history": machine.history_spec, "backtest": gen.backtest_spec, "bankrupt_backtest": bankrupt_spec}


def shard(ctx):
    run_sub(ctx, "history", machine.history_spec(min_ops=5, max_ops=30), lambda s: case_history_full(ctx, s), ctx.n(1600, 30000))
    run_sub(ctx, "backtest", gen.backtest_spec(), lambda s: case_backtest(ctx, s), ctx.n(800, 12000))
    run_sub(ctx, "bankrupt_backtest", bankrupt_spec(), lambda s: case_bankrupt_backtest(ctx, s), ctx.n(800, 12000))
