"""Hypothesis strategies producing plain-data specs (JSON-serialisable)."""
import datetime as dt

from hypothesis import strategies as st

TICKERS = ["a", "b", "c", "d", "e", "f"]


# --------------------------------------------------------------------------- dates
@st.composite
def dates(draw, min_n=3, max_n=20, kinds=("bday", "daily", "mixed", "sparse", "intraday"), start=None):
    kind = draw(st.sampled_from(kinds))
    n = draw(st.integers(min_n, max_n))
    if start is None:
        start = draw(st.sampled_from(["2019-12-23", "2020-01-30", "2021-02-24", "2016-12-27", "2024-02-26", "2010-06-28", "1999-12-27", "2026-12-28", "2015-12-24"]))
        off = draw(st.integers(0, 40))
    else:
        off = 0
    cur = dt.datetime.fromisoformat(start) + dt.timedelta(days=off)
    out = []
    if kind == "bday":
        while len(out) < n:
            if cur.weekday() < 5:
                out.append(cur)
            cur += dt.timedelta(days=1)
    elif kind == "daily":
        for _ in range(n):
            out.append(cur)
            cur += dt.timedelta(days=1)
    elif kind == "mixed":
        gaps = draw(st.lists(st.sampled_from([1, 1, 1, 2, 3, 4, 7, 10, 31, 45]), min_size=n, max_size=n))
        for g in gaps:
            out.append(cur)
            cur += dt.timedelta(days=g)
    elif kind == "sparse":
        gaps = draw(st.lists(st.sampled_from([7, 14, 28, 30, 31, 61, 92, 183, 366]), min_size=n, max_size=n))
        for g in gaps:
            out.append(cur)
            cur += dt.timedelta(days=g)
    else:  # intraday
        gaps = draw(st.lists(st.sampled_from([30, 60, 90, 240, 390, 1050, 1440]), min_size=n, max_size=n))
        cur = cur.replace(hour=9, minute=30)
        for g in gaps:
            out.append(cur)
            cur += dt.timedelta(minutes=g)
    res = []
    for d in out:
        if d.hour == 0 and d.minute == 0:
            res.append(d.strftime("%Y-%m-%d"))
        else:
            res.append(d.strftime("%Y-%m-%dT%H:%M:%S"))
    return res


def max_gap_days(ds):
    t = [dt.datetime.fromisoformat(d) for d in ds]
    if len(t) < 2:
        return 1
    return max(int((b - a).total_seconds() // 86400) + 1 for a, b in zip(t, t[1:]))


# --------------------------------------------------------------------------- prices
@st.composite
def price_path(draw, n, late=0, vol=0.08, decimals=None, p0=None):
    if p0 is None:
        p0 = draw(st.sampled_from([0.37, 2.5, 9.99, 17.25, 50.0, 100.0, 101.3, 412.07, 1234.5, 25000.0]))
    if decimals is None:
        decimals = draw(st.sampled_from([2, 2, 4, 6]))
    rets = draw(st.lists(st.floats(-vol, vol, allow_nan=False), min_size=n, max_size=n))
    p = p0
    out = []
    for i, r in enumerate(rets):
        if i > 0:
            p = p * (1.0 + r)
        v = round(p, decimals)
        if v <= 0:
            v = 10.0 ** (-decimals)
        out.append(v)
    for i in range(min(late, n - 1)):
        out[i] = None
    return out


@st.composite
def prices(draw, n, tickers, n_clean=1, vol=None):
    """dict ticker -> list; the first n_clean tickers have no NaN, others may list late"""
    if vol is None:
        vol = draw(st.sampled_from([0.01, 0.05, 0.12, 0.3]))
    out = {}
    for i, t in enumerate(tickers):
        late = 0
        if i >= n_clean and draw(st.integers(0, 3)) == 0:
            late = draw(st.integers(1, max(1, n - 2)))
        out[t] = draw(price_path(n, late=late, vol=vol))
    return out


# --------------------------------------------------------------------------- costs
@st.composite
def fee_spec(draw, min_unit_price=1.0, kinds=("none", "none", "fixed", "unit", "prop", "fixed+prop", "max")):
    k = draw(st.sampled_from(kinds))
    if k == "none":
        return {"kind": "none"}
    f = draw(st.sampled_from([0.5, 1.0, 5.0, 25.0]))
    unit = draw(st.sampled_from([0.001, 0.005, 0.01, 0.05])) * min(min_unit_price, 100.0)
    r = draw(st.sampled_from([0.0001, 0.001, 0.0025, 0.01]))
    if k == "fixed":
        return {"kind": k, "f": f}
    if k == "unit":
        return {"kind": k, "k": unit}
    if k == "prop":
        return {"kind": k, "r": r}
    if k == "fixed+prop":
        return {"kind": k, "f": f, "r": r}
    return {"kind": "max", "f": f, "k": unit}


@st.composite
def bidoffer(draw, n, tickers, pr):
    """None | dict ticker -> per-date absolute spread (price-proportional or constant)"""
    mode = draw(st.sampled_from(["none", "none", "const", "bps", "partial"]))
    if mode == "none":
        return None
    out = {}
    for i, t in enumerate(tickers):
        if mode == "partial" and i % 2 == 1:
            continue
        if mode == "const":
            base = min(x for x in pr[t] if x is not None)
            s = round(base * draw(st.sampled_from([0.001, 0.004, 0.02])), 6)
            out[t] = [s] * n
        else:
            bps = draw(st.sampled_from([1, 10, 50, 200]))
            out[t] = [0.0 if x is None else round(x * bps / 1e4, 8) for x in pr[t]]
    return out


def min_price(pr):
    return min(x for v in pr.values() for x in v if x is not None)


# --------------------------------------------------------------------------- algo stacks
FLAGS = st.fixed_dictionaries({}, optional={"run_on_first_date": st.booleans(), "run_on_end_of_period": st.booleans(), "run_on_last_date": st.booleans()})


@st.composite
def calendar_gate(draw):
    name = draw(st.sampled_from(["RunDaily", "RunDaily", "RunWeekly", "RunMonthly", "RunQuarterly", "RunYearly"]))
    return [name, draw(FLAGS)]


@st.composite
def gate(draw, ds, depth=0):
    k = draw(st.sampled_from(["cal", "cal", "cal", "once", "ondate", "afterdate", "afterdays", "everyn", "or", "not", "none"]))
    if k == "cal":
        return [draw(calendar_gate())]
    if k == "once":
        return [["RunOnce", {}]]
    if k == "ondate":
        sub = draw(st.lists(st.sampled_from(ds), min_size=1, max_size=4, unique=True))
        return [["RunOnDate", {"dates": sorted(sub)}]]
    if k == "afterdate":
        return [["RunAfterDate", {"date": draw(st.sampled_from(ds))}]]
    if k == "afterdays":
        return [["RunAfterDays", {"days": draw(st.integers(0, max(0, len(ds) - 1)))}]]
    if k == "everyn":
        n = draw(st.integers(1, 5))
        return [["RunEveryNPeriods", {"n": n, "offset": draw(st.integers(0, n - 1))}]]
    if k == "none" or depth >= 1:
        return []
    if k == "or":
        a = draw(gate(ds, depth + 1)) or [["RunOnce", {}]]
        b = draw(gate(ds, depth + 1)) or [["RunMonthly", {}]]
        return [["Or", {"algos": [a[0], b[0]]}]]
    a = draw(gate(ds, depth + 1)) or [["RunOnce", {}]]
    return [["Not", {"algo": a[0]}]]


def _lb(draw, ds, lo=None):
    g = max_gap_days(ds)
    lo = g + 1 if lo is None else lo
    return {"days": draw(st.integers(lo, lo + 40))}


@st.composite
def select_weigh(draw, ds, universe, clean, frames, allow_short=True, allow_risk=True, n_dates=None, scale_free=False, pr=None):
    """returns list of algos selecting + weighing over `universe` names; may add frames"""
    n = len(ds)
    out = []
    wk = draw(
        st.sampled_from(
            ["equal", "equal", "equal", "specified", "specified", "target", "random", "invvol", "erc", "meanvar"] if allow_risk else ["equal", "equal", "specified", "specified", "target", "random"]
        )
    )
    if wk in ("invvol", "erc", "meanvar") and (len(clean) < 2 or n < 7):
        wk = "equal"
    if wk == "specified":
        ks = draw(st.lists(st.sampled_from(clean), min_size=1, max_size=len(clean), unique=True))
        ws = _weights(draw, ks, allow_short)
        return [["WeighSpecified", {"weights": ws}]], "specified"
    if wk == "target":
        ks = draw(st.lists(st.sampled_from(clean), min_size=1, max_size=len(clean), unique=True))
        idx = sorted(draw(st.lists(st.integers(0, n - 1), min_size=1, max_size=n, unique=True)))
        cols = {k: [] for k in ks}
        for _ in idx:
            ws = _weights(draw, ks, allow_short)
            for k in ks:
                cols[k].append(ws[k] if draw(st.integers(0, 9)) else None)
        nm = "tw%d" % len(frames)
        frames[nm] = {"kind": "frame", "dates": [ds[i] for i in idx], "cols": cols}
        by_name = draw(st.booleans())
        return [["WeighTarget", {"frame": nm, "by_name": by_name}]], "target:" + nm + (":byname" if by_name else "")
    if wk in ("invvol", "erc", "meanvar"):
        ks = draw(st.lists(st.sampled_from(clean), min_size=2, max_size=len(clean), unique=True))
        out.append(["RunAfterDays", {"days": draw(st.integers(5, max(5, n - 2)))}])
        out.append(["SelectThese", {"tickers": ks}])
        lb = {"days": draw(st.integers(max_gap_days(ds) * 5 + 1, max_gap_days(ds) * 8 + 30))}
        lag = {"days": draw(st.sampled_from([0, 0, 1]))}
        nm = {"invvol": "WeighInvVol", "erc": "WeighERC", "meanvar": "WeighMeanVar"}[wk]
        out.append([nm, {"lookback": lb, "lag": lag}])
        if draw(st.integers(0, 3)) == 0:
            out.append(["LimitWeights", {"limit": draw(st.sampled_from([0.5, 0.6, 0.75, 1.0]))}])
        return out, wk
    # selection based
    sk = draw(st.sampled_from(["all", "all", "these", "hasdata", "momentum", "setstat", "where", "randomly", "regex"]))
    if scale_free and sk == "randomly":
        sk = "all"
    if sk == "all":
        out.append(["SelectAll", {}])
    elif sk == "these":
        ks = draw(st.lists(st.sampled_from(universe), min_size=1, max_size=len(universe), unique=True))
        out.append(["SelectThese", {"tickers": ks}])
    elif sk == "hasdata":
        out.append(["SelectHasData", {"lookback": _lb(draw, ds), "min_count": draw(st.integers(1, 3))}])
    elif sk == "momentum":
        out.append(["SelectAll", {}])
        out.append(
            [
                "SelectMomentum",
                {
                    "n": draw(st.integers(1, len(universe))),
                    "lookback": _lb(draw, ds),
                    "lag": {"days": draw(st.sampled_from([0, 0, 1, 2]))},
                    "sort_descending": draw(st.booleans()),
                    "all_or_none": draw(st.booleans()),
                },
            ]
        )
    elif sk == "setstat":
        # a statistic exists only where the ticker has a price (SelectN itself applies no tradability filter)
        cols = {k: [(round(draw(st.floats(-1, 1, allow_nan=False)), 3) if (pr is None or k not in pr or pr[k][i] is not None) else None) for i in range(n)] for k in universe}
        nm = "stat%d" % len(frames)
        fr = {"kind": "frame", "cols": cols}
        if draw(st.integers(0, 2)) == 0 and n >= 3:
            # a statistic published on some dates only (SetStat stops the stack on the others)
            keep = sorted(draw(st.lists(st.integers(0, n - 1), min_size=1, max_size=n - 1, unique=True)))
            fr = {"kind": "frame", "dates": [ds[i] for i in keep], "cols": {k: [v[i] for i in keep] for k, v in cols.items()}}
        frames[nm] = fr
        out.append(["SetStat", {"frame": nm, "by_name": draw(st.booleans()), "lag": {"days": draw(st.sampled_from([0, 0, 1, 2, 3]))}}])
        out.append(["SelectN", {"n": draw(st.integers(1, len(universe))), "sort_descending": draw(st.booleans())}])
    elif sk == "where":
        cols = {k: [draw(st.booleans()) for _ in range(n)] for k in universe}
        nm = "sig%d" % len(frames)
        frames[nm] = {"kind": "frame", "cols": cols, "dtype": "bool"}
        out.append(["SelectWhere", {"frame": nm, "by_name": draw(st.booleans())}])
    elif sk == "randomly":
        out.append(["SelectAll", {}])
        out.append(["SelectRandomly", {"n": draw(st.integers(1, len(universe)))}])
    elif sk == "regex":
        out.append(["SelectAll", {}])
        out.append(["SelectRegex", {"regex": draw(st.sampled_from(["^[a-c]", "[b-f]$", "a|c|e", "."]))}])
    if wk == "random" and not scale_free:
        out.append(["WeighRandomly", {"bounds": [0.0, 1.0], "weight_sum": draw(st.sampled_from([1, 1, 0.8]))}])
    else:
        wk = "equal"
        out.append(["WeighEqually", {}])
        r = draw(st.integers(0, 9))
        if r == 0:
            out.append(["LimitWeights", {"limit": draw(st.sampled_from([0.4, 0.5, 0.75, 1.0]))}])
        elif r == 1:
            out.append(["ScaleWeights", {"scale": draw(st.sampled_from([0.5, 0.9, 1.0, 1.3] + ([-0.5, -1.0] if allow_short else [])))}])
        elif r == 2:
            out.append(["LimitDeltas", {"limit": draw(st.sampled_from([0.05, 0.1, 0.3]))}])
    return out, sk + "+" + wk


def _weights(draw, ks, allow_short):
    raw = [draw(st.integers(1, 10)) for _ in ks]
    tot = float(sum(raw))
    gross = draw(st.sampled_from([1.0, 1.0, 0.9, 0.5, 1.0] + ([1.4] if allow_short else [])))
    ws = {}
    for k, r in zip(ks, raw):
        w = round(gross * r / tot, 4)
        if allow_short and draw(st.integers(0, 5)) == 0:
            w = -w
        ws[k] = w
    if gross == 1.0 and all(v > 0 for v in ws.values()):
        # keep the sum at most 1 after rounding
        k0 = ks[0]
        ws[k0] = round(ws[k0] - max(0.0, sum(ws.values()) - 1.0), 4)
    return ws


@st.composite
def stack(draw, ds, universe, clean, frames, gated="any", allow_short=True, allow_risk=True, allow_flow=True, scale_free=False, rot=True, pr=None):
    """full algo stack for one strategy; returns (algos, info)"""
    if gated == "calendar":
        g = [draw(calendar_gate())]
    elif gated == "none":
        g = []
    else:
        g = draw(gate(ds))
    sw, info = draw(select_weigh(ds, universe, clean, frames, allow_short=allow_short, allow_risk=allow_risk, scale_free=scale_free, pr=pr))
    algos = list(g) + sw
    if allow_flow and (allow_flow == "force" or draw(st.integers(0, 7)) == 0):
        amt = draw(st.sampled_from([1000.0, 25000.0, -1000.0, -20000.0, 333.33]))
        algos.insert(draw(st.integers(0, len(algos))), ["CapitalFlow", {"amount": amt}])
        info += "+flow"
    if rot and draw(st.integers(0, 9)) == 0:
        algos.append(["RebalanceOverTime", {"n": draw(st.integers(1, 4)), "run_always": draw(st.booleans())}])
        info += "+rot"
    else:
        algos.append(["Rebalance", {}])
    return algos, info


@st.composite
def sec_child(draw, t, allow_mult=True):
    k = draw(st.integers(0, 3))
    if k <= 1:
        return t
    mult = draw(st.sampled_from([1, 1, 10, 0.1, 100])) if allow_mult else 1
    d = {"sec": t, "mult": mult}
    if k == 3:
        d["lazy"] = True
    return d


@st.composite
def backtest_spec(
    draw,
    min_dates=3,
    max_dates=16,
    nested=None,
    costs=True,
    allow_short=True,
    allow_risk=True,
    allow_flow=True,
    integer=None,
    scale_free=False,
    date_kinds=("bday", "daily", "mixed", "sparse", "intraday"),
    declare=None,
    allow_mult=True,
    deterministic_children=False,
    max_sub=2,
    depth3=False,
):
    ds = draw(dates(min_dates, max_dates, kinds=date_kinds))
    n = len(ds)
    nt = draw(st.integers(2, 5))
    tickers = TICKERS[:nt]
    n_clean = draw(st.integers(1, nt))
    pr = draw(prices(n, tickers, n_clean=n_clean))
    clean = tickers[:n_clean]
    frames = {}
    if nested is None:
        nested = draw(st.integers(0, 3)) == 0
    spec = {"dates": ds, "prices": pr, "rng_seed": draw(st.integers(0, 10**6))}
    if nested:
        nsub = draw(st.integers(1, max_sub))
        kids = []
        subnames = []
        for i in range(nsub):
            sub_t = draw(st.lists(st.sampled_from(tickers), min_size=1, max_size=nt, unique=True))
            sub_clean = [t for t in sub_t if t in clean]
            if not sub_clean:
                sub_t = sub_t + [clean[0]]
                sub_clean = [clean[0]]
            algos, info = draw(stack(ds, sub_t, sub_clean, frames, gated="calendar", allow_short=False, allow_risk=False, allow_flow=False, scale_free=scale_free or deterministic_children, rot=False, pr=pr))
            name = "s%d" % (i + 1)
            subnames.append(name)
            kids.append({"name": name, "kind": "Strategy", "algos": algos, "children": [draw(sec_child(t, allow_mult)) for t in sub_t]})
        if depth3:
            # wrap the sub-strategies into a middle strategy whose own (calendar-gated) stack allocates among them
            mid_own = draw(st.lists(st.sampled_from(clean), min_size=0, max_size=1, unique=True))
            mid_uni = subnames + mid_own
            if draw(st.integers(0, 2)) != 0:
                # allocation by the children's own price history: what each child is worth to the parent must be its true index
                malgos = [
                    draw(calendar_gate()),
                    ["SelectAll", {}],
                    ["SelectMomentum", {"n": draw(st.integers(1, max(1, len(mid_uni) - 1))), "lookback": _lb(draw, ds), "lag": {"days": draw(st.sampled_from([0, 0, 1]))}, "sort_descending": draw(st.booleans()), "all_or_none": False}],
                    ["WeighEqually", {}],
                    ["Rebalance", {}],
                ]
            else:
                malgos, _ = draw(stack(ds, mid_uni, mid_uni, frames, gated="calendar", allow_short=False, allow_risk=False, allow_flow=False, scale_free=scale_free or deterministic_children, rot=False, pr=pr))
            kids = [{"name": "m1", "kind": "Strategy", "algos": malgos, "children": kids + [draw(sec_child(t, allow_mult)) for t in mid_own]}]
            subnames = ["m1"]
        own = draw(st.lists(st.sampled_from(clean), min_size=0, max_size=len(clean), unique=True))
        kids += [draw(sec_child(t, allow_mult)) for t in own]
        uni = subnames + own
        palgos, pinfo = draw(stack(ds, uni, uni, frames, gated="any", allow_short=False, allow_risk=False, allow_flow=allow_flow, scale_free=scale_free, rot=False, pr=pr))
        spec["tree"] = {"name": "root", "kind": "Strategy", "algos": palgos, "children": kids}
    else:
        if declare is None:
            declare = draw(st.booleans())
        algos, info = draw(stack(ds, tickers, clean, frames, allow_short=allow_short, allow_risk=allow_risk, allow_flow=allow_flow, scale_free=scale_free, pr=pr))
        node = {"name": "root", "kind": "Strategy", "algos": algos}
        if declare:
            node["children"] = [draw(sec_child(t, allow_mult)) for t in tickers]
        spec["tree"] = node
    spec["frames"] = frames
    spec["additional"] = sorted(frames.keys())
    if integer is None:
        integer = draw(st.booleans())
    spec["integer_positions"] = integer
    spec["initial_capital"] = draw(st.sampled_from([1e6, 1e6, 1e5, 12345.67, 1e7, 5e8] if not scale_free else [1e6, 1e5, 1e7]))
    if costs:
        if scale_free:
            spec["fee"] = draw(fee_spec(min_price(pr), kinds=("none", "prop")))
        else:
            spec["fee"] = draw(fee_spec(min_price(pr)))
        bo = draw(bidoffer(n, tickers, pr))
        if bo is not None:
            spec["bidoffer"] = bo
    else:
        spec["fee"] = {"kind": "none"}
    return spec


def walk_nodes(node, path=()):
    """yield (path, node_spec) for strategy nodes"""
    if isinstance(node, dict) and "name" in node:
        yield path + (node["name"],), node
        for c in (node.get("children") or []) + (node.get("late") or []):
            yield from walk_nodes(c, path + (node["name"],))


def spec_labels(spec):
    labs = []
    nodes = list(walk_nodes(spec["tree"]))
    if len(nodes) > 1:
        labs.append("nested")
    if spec.get("fee", {}).get("kind", "none") != "none":
        labs.append("fee")
    if spec.get("bidoffer"):
        labs.append("spread")
    if spec.get("integer_positions"):
        labs.append("integer")
    names = set()

    def rec(a):
        names.add(a[0])
        p = a[1] if len(a) > 1 else {}
        for x in p.get("algos", []) or []:
            rec(x)
        if "algo" in p:
            rec(p["algo"])

    for _, nd in nodes:
        for a in nd.get("algos", []):
            rec(a)
    for nm in sorted(names):
        labs.append("algo=" + nm)
    if any(x is None for v in spec["prices"].values() for x in v):
        labs.append("late_listing")
    return labs
