"""Coverage-guided campaign for C05 (supplementary engine, thorough tier): libFuzzer mutates bytes, a data-provider layer decodes them into
the same plain-data spec the Hypothesis generator of vlib/props/c05.py produces, and the oracle is the very same case function
(independent cost model + bisection).  A failing input is shrunk by nothing but libFuzzer's own minimisation; the decoded spec is what
gets written as the replay file, so `./check C05 --replay` reproduces it without atheris.

usage: python fuzz/c05_atheris.py <out.json> <runs> <seed>
"""
import json
import os
import sys

sys.path.insert(0, os.path.dirname(os.path.dirname(os.path.abspath(__file__))))
import atheris  # noqa: E402

from vlib import build  # noqa: E402

OUT, RUNS, SEED = sys.argv[1], int(sys.argv[2]), int(sys.argv[3])
d = build.ensure_build("py")
sys.path.insert(0, d)
with atheris.instrument_imports(include=["bt.core"]):
    import bt  # noqa: F401,E402
    import bt.core  # noqa: E402

from vlib.harness import Ctx, Discard, Violation, spec_hash  # noqa: E402
from vlib.props import c05  # noqa: E402

ctx = Ctx("C05", "thorough", SEED, 0, 1, kind="py")
ctx._bt = build.load_bt("py")
stats = {"runs": 0, "nontrivial": [], "discards": 0, "labels": {}, "failure": None, "sample": None}
_nt = set()

PRICES = [0.01, 0.37, 2.5, 9.99, 17.25, 100.0, 412.07, 25000.0]
FEES = ["none", "fixed", "unit", "prop", "fixed+prop", "max", "sell_levy", "buy_duty", "side_fixed"]


def decode(data):
    f = atheris.FuzzedDataProvider(data)
    price = PRICES[f.ConsumeIntInRange(0, len(PRICES) - 1)] if f.ConsumeBool() else round(f.ConsumeFloatInRange(0.01, 3e4), 4)
    mult = [1, 1, 10, 0.1, 100][f.ConsumeIntInRange(0, 4)]
    unit = price * mult
    integer = f.ConsumeBool()
    sp = [None, 0.0, 1e-4, 1e-3, 0.01, 0.1][f.ConsumeIntInRange(0, 5)]
    spread = None if sp is None else price * sp
    room = 0.9 * unit - (0.0 if spread is None else 0.5 * spread * mult)
    k = FEES[f.ConsumeIntInRange(0, len(FEES) - 1)]
    frac = [1e-4, 1e-3, 0.01, 0.1, 0.5][f.ConsumeIntInRange(0, 4)]
    if k == "none" or room <= 0:
        fee = {"kind": "none"}
    elif k == "fixed":
        fee = {"kind": k, "f": room * frac}
    elif k == "unit":
        fee = {"kind": k, "k": room * frac}
    elif k in ("prop", "sell_levy", "buy_duty"):
        fee = {"kind": k, "r": min(0.5, room * frac / unit)}
    elif k == "fixed+prop":
        fee = {"kind": k, "f": room * frac / 2, "r": min(0.25, room * frac / 2 / unit)}
    elif k == "side_fixed":
        fee = {"kind": k, "fb": room * frac, "fs": room * frac * [0.0, 0.1, 3.0][f.ConsumeIntInRange(0, 2)] if frac <= 0.1 else 0.0}
    else:
        fee = {"kind": "max", "f": room * frac, "k": room * frac * [0.01, 0.1, 1.0][f.ConsumeIntInRange(0, 2)]}
    pk = f.ConsumeIntInRange(0, 2)
    if pk == 0:
        pos0 = 0
    else:
        mag = f.ConsumeIntInRange(1, 10**6) if f.ConsumeBool() else [1, 2, 7, 100, 12345][f.ConsumeIntInRange(0, 4)]
        if not integer and f.ConsumeBool():
            mag = mag + f.ConsumeFloatInRange(0.01, 0.99)
        pos0 = mag if pk == 1 else -mag
    ak = f.ConsumeIntInRange(0, 6)
    sign = 1 if f.ConsumeBool() else -1
    if ak == 0:
        amount = ["units", sign * f.ConsumeFloatInRange(0.0, 1e4)]
    elif ak == 1:
        amount = sign * f.ConsumeFloatInRange(1e-3, 1e9)
    elif ak == 2:
        amount = ["close"] if pos0 != 0 else ["units", sign * 3.5]
    elif ak == 3:
        amount = ["cost", sign * f.ConsumeIntInRange(1, 10**5), [0.0, 1e-9, -1e-9, 1e-3, -1e-3, 0.5 * unit, -0.5 * unit][f.ConsumeIntInRange(0, 6)]]
    elif ak == 4:
        amount = ["value_frac", f.ConsumeFloatInRange(0.05, 2.5)] if pos0 != 0 else ["units", sign * 0.5]
    elif ak == 5:
        amount = sign * unit * f.ConsumeFloatInRange(1e-9, 2.0)
    else:
        amount = sign * f.ConsumeFloatInRange(1e8, 3e17)
    return {"price": price, "mult": mult, "integer": integer, "spread": spread, "fee": fee, "pos0": pos0, "amount": amount}


def one(data):
    if stats["failure"] is not None:
        return
    spec = decode(data)
    stats["runs"] += 1
    try:
        res = c05.case_allocate(ctx, spec)
    except Discard:
        stats["discards"] += 1
        return
    except Violation as v:
        stats["failure"] = {"sub": "allocate", "message": v.msg, "signature": v.signature, "spec": spec, "property": "C05"}
        flush()
        raise
    if res and res.get("nontrivial"):
        _nt.add(spec_hash(spec))
        if stats["sample"] is None:
            stats["sample"] = spec
    for lab in (res or {}).get("labels", ()):
        stats["labels"][lab] = stats["labels"].get(lab, 0) + 1
    if stats["runs"] % 1000 == 0:
        flush()  # libFuzzer leaves through _exit: nothing runs afterwards


def flush():
    stats["nontrivial"] = sorted(_nt)
    with open(OUT + ".tmp", "w") as fh:
        json.dump(stats, fh)
    os.replace(OUT + ".tmp", OUT)


corpus = OUT + ".corpus"
os.makedirs(corpus, exist_ok=True)
atheris.Setup([sys.argv[0], "-runs=%d" % RUNS, "-seed=%d" % (SEED or 1), "-max_len=96", "-print_final_stats=0", "-verbosity=0", corpus], one)
try:
    atheris.Fuzz()
finally:
    flush()
