"""Sensitivity harness: apply one source mutant at a time to a scratch copy of /repo (outside /repo and
/verif), check that the repository's own tests still pass on it, run the property's quick check with
VERIF_REPO pointing at the copy and record caught / missed.

usage: python tools/mutants.py [-p C01,C07] [-m name-substring] [--tier quick] [--no-tests]
Not a registered check.
"""
import argparse
import json
import os
import shutil
import subprocess
import sys
import time

VERIF = os.path.dirname(os.path.dirname(os.path.abspath(__file__)))

# (name, [properties expected to catch it], file, old, new)
MUTANTS = [
    # ---- C01
    ("c01_drop_coupon_in_value", ["C01", "C02", "C17"], "bt/core.py", "        self._capital += coupons\n        val += coupons\n", "        self._capital += coupons\n"),
    ("c01_no_needupdate_on_transact", ["C01", "C08"], "bt/core.py", "        self._needupdate = True\n\n        # adjust position & value", "        # adjust position & value"),
    ("c01_weight_uses_last_value", ["C01"], "bt/core.py", "                        c._weight = c.value / val\n", "                        c._weight = c.value / self._last_value if self._last_value else 0.0\n"),
    ("c01_skip_value_write_when_small_change", ["C01", "C08"], "bt/core.py", "        if newpt or not is_zero(self._value - val) or not is_zero(self._notl_value - notl_val):", "        if newpt or abs(self._value - val) > 1e-3 or not is_zero(self._notl_value - notl_val):"),
    ("c01_sec_value_ignores_multiplier_when_short", ["C01", "C02"], "bt/core.py", "            self._value = self._position * self._price * self.multiplier\n", "            self._value = self._position * self._price * (self.multiplier if self._position > 0 else 1.0)\n"),
    # ---- C02 / C07
    ("c07_fee_not_reset_on_new_date", ["C07"], "bt/core.py", "            self._last_fee = 0.0\n            newpt = True", "            newpt = True"),
    ("c02_child_not_credited", ["C01", "C02", "C07"], "bt/core.py", "            # adjust self's capital\n            self.adjust(amount, update=False, flow=True)", "            # adjust self's capital\n            self.adjust(amount * (1.0 if amount > 0 else 0.999), update=False, flow=True)"),
    ("c07_outlay_without_half_spread", ["C07", "C02", "C18"], "bt/core.py", "        outlay = q * self._price * self.multiplier + bidoffer\n", "        outlay = q * self._price * self.multiplier\n"),
    ("c07_fee_on_abs_price_only", ["C07"], "bt/core.py", "            fee = self.commission(q, self._price * self.multiplier)\n", "            fee = self.commission(q, self._price)\n"),
    ("c07_fee_charged_to_root", ["C07", "C01"], "bt/core.py", "        self.parent.adjust(-full_outlay, update=update, flow=False, fee=fee)", "        self.parent.adjust(-outlay, update=update, flow=False, fee=0.0)\n        self.root.adjust(-fee, update=update, flow=False, fee=fee)"),
    # ---- C03
    ("c03_flows_not_reset", ["C03"], "bt/core.py", "            self._net_flows = 0\n            self._last_price = self._price", "            self._last_price = self._price"),
    ("c03_base_uses_value", ["C03"], "bt/core.py", "                    ret = self._value / (self._last_value + self._net_flows) - 1\n", "                    ret = self._value / (self._last_value + self._net_flows * 0.999) - 1\n"),
    ("c03_fee_counted_as_flow", ["C03", "C07"], "bt/core.py", "        if flow:\n            self._net_flows += amount\n", "        if flow:\n            self._net_flows += amount\n        elif fee != 0:\n            self._net_flows -= fee\n"),
    # ---- C12
    ("c12_monthly_drops_year", ["C12"], "bt/algos.py", "        if now.year != date_to_compare.year or now.month != date_to_compare.month:", "        if now.month != date_to_compare.month:"),
    ("c12_quarterly_uses_month_div", ["C12"], "bt/algos.py", "        if now.year != date_to_compare.year or now.quarter != date_to_compare.quarter:", "        if now.year != date_to_compare.year or (now.month // 3) != (date_to_compare.month // 3):"),
    ("c12_everyn_counts_repeats", ["C12"], "bt/algos.py", "        if self.lcall == target.now:\n            return False\n        else:", "        if False:\n            return False\n        else:"),
    ("c12_afterdate_inclusive", ["C12"], "bt/algos.py", "        return target.now > self.date", "        return target.now >= self.date"),
    ("c12_daily_compares_day_only", ["C12"], "bt/algos.py", "        if now.date() != date_to_compare.date():", "        if now.day != date_to_compare.day:"),
    # ---- C13
    ("c13_run_always_false_still_runs", ["C13"], "bt/core.py", "                    if algo.run_always:\n                        algo(target)", "                    algo(target)"),
    ("c13_or_short_circuits", ["C13"], "bt/algos.py", "            tempRes = algo(target)\n            res = res | tempRes", "            tempRes = algo(target)\n            res = res | tempRes\n            if res:\n                break"),
    ("c13_temp_not_cleared_for_children", ["C13"], "bt/core.py", "        # clear out temp data\n        self.temp = {}\n", "        # clear out temp data\n        if self.parent is self:\n            self.temp = {}\n"),
    ("c13_require_none_default", ["C13"], "bt/algos.py", "        if item is None:\n            return self.if_none", "        if item is None:\n            return False"),
    ("c13_oob_absolute_deviation", ["C13"], "bt/algos.py", "                deviation = abs((c.weight - targets[cname]) / targets[cname])", "                deviation = abs(c.weight - targets[cname])"),
    ("c13_stack_result_of_run_always", ["C13"], "bt/core.py", "                    if algo.run_always:\n                        algo(target)", "                    if algo.run_always:\n                        res = algo(target)"),
    # ---- C14
    ("c14_selectall_allows_zero", ["C14"], "bt/algos.py", "            if self.include_negative:\n                target.temp[\"selected\"] = list(universe.index)\n            else:\n                target.temp[\"selected\"] = list(universe[universe > 0].index)\n        return True\n\n\nclass SelectThese", "            if self.include_negative:\n                target.temp[\"selected\"] = list(universe.index)\n            else:\n                target.temp[\"selected\"] = list(universe[universe >= 0].index)\n        return True\n\n\nclass SelectThese"),
    ("c14_hasdata_strict_count", ["C14"], "bt/algos.py", "        cnt = cnt[cnt >= self.min_count]", "        cnt = cnt[cnt > self.min_count]"),
    ("c14_hasdata_window_open", ["C14"], "bt/algos.py", "        filt = target.universe.loc[target.now - self.lookback :, selected]", "        filt = target.universe.loc[:, selected]"),
    ("c14_selectn_one_more", ["C14"], "bt/algos.py", "        sel = list(stat[:keep_n].index)", "        sel = list(stat[: keep_n + (1 if keep_n > 2 else 0)].index)"),
    ("c14_selectn_percent_ceil", ["C14"], "bt/algos.py", "            keep_n = int(self.n * len(stat))", "            keep_n = int(round(self.n * len(stat)))"),
    ("c14_totalreturn_ignores_lag_end", ["C14", "C04"], "bt/algos.py", "        prc = target.universe.loc[t0 - self.lookback : t0, selected]\n        target.temp[\"stat\"] = prc.calc_total_return()", "        prc = target.universe.loc[t0 - self.lookback :, selected]\n        target.temp[\"stat\"] = prc.calc_total_return()"),
    ("c14_setstat_ignores_lag", ["C14"], "bt/algos.py", "        target.temp[\"stat\"] = stat.loc[t0]", "        target.temp[\"stat\"] = stat.loc[target.now] if target.now in stat.index else stat.loc[t0]"),
    ("c14_where_skips_tradability", ["C14"], "bt/algos.py", "            if not self.include_no_data:\n                universe = target.universe.loc[target.now, list(selected)].dropna()", "            if self.include_negative:\n                universe = target.universe.loc[target.now, list(selected)].dropna()"),
    ("c14_randomly_keeps_negative", ["C14"], "bt/algos.py", "                sel = list(universe[universe > 0].index)\n\n        if self.n is not None:", "                sel = list(universe.index)\n\n        if self.n is not None:"),
    ("c14_active_ignores_rolled", ["C14", "C20"], "bt/algos.py", "        selected = [s for s in selected if s not in set.union(rolled, closed)]", "        selected = [s for s in selected if s not in closed]"),
    ("c14_regex_match", ["C14"], "bt/algos.py", "        selected = [s for s in selected if self.regex.search(s)]", "        selected = [s for s in selected if self.regex.match(s)]"),
    ("c14_types_ignores_exclude", ["C14"], "bt/algos.py", "if isinstance(sec, self.include_types) and not isinstance(sec, self.exclude_types)]", "if isinstance(sec, self.include_types)]"),
    ("c14_otr_first_row", ["C14"], "bt/algos.py", "        resolved = on_the_run.loc[target.now, aliases].tolist()", "        resolved = on_the_run.iloc[-1][aliases].tolist()"),
    ("c14_these_ignores_negative_flag", ["C14"], "bt/algos.py", "            universe = target.universe.loc[target.now, self.tickers].dropna()\n            if self.include_negative:", "            universe = target.universe.loc[target.now, self.tickers].dropna()\n            if True:"),
    # ---- C15
    ("c15_equal_n_plus_1", ["C15"], "bt/algos.py", "            w = 1.0 / n\n", "            w = 1.0 / (n + 1) if n > 3 else 1.0 / n\n"),
    ("c15_specified_no_copy", ["C15"], "bt/algos.py", "        target.temp[\"weights\"] = self.weights.copy()", "        target.temp[\"weights\"] = self.weights"),
    ("c15_invvol_ignores_lag", ["C15", "C04"], "bt/algos.py", "        prc = target.universe.loc[t0 - self.lookback : t0, selected]\n        tw = bt.ffn.calc_inv_vol_weights(prc.to_returns().dropna())", "        prc = target.universe.loc[t0 - self.lookback :, selected]\n        tw = bt.ffn.calc_inv_vol_weights(prc.to_returns().dropna())"),
    ("c15_erc_window_full", ["C15"], "bt/algos.py", "        prc = target.universe.loc[t0 - self.lookback : t0, selected]\n        tw = bt.ffn.calc_erc_weights(", "        prc = target.universe.loc[:t0, selected]\n        tw = bt.ffn.calc_erc_weights("),
    ("c15_limitdeltas_uses_target_sign", ["C15"], "bt/algos.py", "                if abs(delta) > self.limit:\n                    tw[k] = cur + (self.limit * np.sign(delta))", "                if abs(delta) > self.limit:\n                    tw[k] = cur + self.limit"),
    ("c15_limitdeltas_dict_ignored", ["C15"], "bt/algos.py", "                    if abs(delta) > lmt:\n                        tw[k] = cur + (lmt * np.sign(delta))", "                    if abs(delta) > 2 * lmt:\n                        tw[k] = cur + (lmt * np.sign(delta))"),
    ("c15_limitweights_infeasible_passthrough", ["C15"], "bt/algos.py", "        if self.limit < 1.0 / len(tw):\n            tw = {}", "        if self.limit < 0.5 / len(tw):\n            tw = {}"),
    ("c15_targetvol_no_annualization", ["C15"], "bt/algos.py", "        vol = np.sqrt(np.matmul(weights.values.T, np.matmul(covar.values, weights.values)) * self.annualization_factor)\n\n        # a scalar", "        vol = np.sqrt(np.matmul(weights.values.T, np.matmul(covar.values, weights.values)) * 252)\n\n        # a scalar"),
    ("c15_pte_ge", ["C15"], "bt/algos.py", "        if PTE_vol > self.PTE_volatility_cap:\n            return True", "        if PTE_vol > 2 * self.PTE_volatility_cap:\n            return True"),
    ("c15_pte_ignores_targets", ["C15"], "bt/algos.py", "            if c in target_weights:\n                weights[c] -= target_weights[c]", "            if c in target_weights and c in current_weights:\n                weights[c] -= target_weights[c]"),
    ("c15_scale_abs", ["C15"], "bt/algos.py", "{k: self.scale * w for k, w in target.temp[\"weights\"].items()}", "{k: abs(self.scale) * w for k, w in target.temp[\"weights\"].items()}"),
    ("c15_weightarget_keeps_nan", ["C15"], "bt/algos.py", "            target.temp[\"weights\"] = w.dropna()", "            target.temp[\"weights\"] = w.fillna(0.0)"),
    ("c15_random_sum_ignored", ["C15"], "bt/algos.py", "            rw = bt.ffn.random_weights(n, self.bounds, self.weight_sum)", "            rw = bt.ffn.random_weights(n, self.bounds, 1.0)"),
    # ---- C04
    ("c04_universe_unsliced", ["C04"], "bt/core.py", "            self._funiverse = self._universe.loc[: self.now]\n", "            self._funiverse = self._universe\n"),
    ("c04_weightarget_next_row", ["C04", "C15"], "bt/algos.py", "        if target.now in weights.index:\n            w = weights.loc[target.now]\n", "        if target.now in weights.index:\n            w = weights.loc[target.now:].iloc[-1] if len(weights.loc[target.now:]) > 3 else weights.loc[target.now]\n"),
    ("c04_selectwhere_uses_max", ["C04", "C14"], "bt/algos.py", "            sig = signal.loc[target.now]\n", "            sig = signal.loc[target.now:].iloc[:2].any()\n"),
    ("c04_sec_price_next", ["C04", "C01"], "bt/core.py", "                self._price = self._prices.values[inow]\n", "                self._price = self._prices.values[min(inow + 1, len(self._prices) - 1)] if inow > 3 else self._prices.values[inow]\n"),
    ("c04_spread_from_last_row", ["C04", "C07"], "bt/core.py", "                self._bidoffer = self._bidoffers.values[inow]\n", "                self._bidoffer = self._bidoffers.values[-1]\n"),
    ("c04_targetvol_unsliced_window", ["C04"], "bt/algos.py", "        t0 = target.now - self.lag\n        prc = target.universe.loc[t0 - self.lookback : t0, selected]\n        returns = bt.ffn.to_returns(prc)", "        t0 = target.now - self.lag\n        prc = target._universe.loc[t0 - self.lookback : t0 + pd.DateOffset(days=2), selected]\n        returns = bt.ffn.to_returns(prc)"),
    ("c04_pte_unsliced_window", ["C04"], "bt/algos.py", "        prc = target.universe.loc[t0 - self.lookback : t0, cols]", "        prc = target._universe.loc[t0 - self.lookback : t0 + pd.DateOffset(days=2), cols]"),
    ("c04_pte_next_target_row", ["C04"], "bt/algos.py", "        target_weights = self.target_weights.loc[target.now, :]", "        target_weights = self.target_weights.loc[target.now :, :].iloc[:2].iloc[-1]"),
    ("c04_coupon_next_row", ["C04", "C17"], "bt/core.py", "        coupon = self._coupons.values[inow]", "        coupon = self._coupons.values[min(inow + 1, len(self._coupons) - 1)] if inow > 2 else self._coupons.values[inow]"),
    ("c04_cost_short_last_row", ["C04", "C17"], "bt/core.py", "            cost = self._cost_short.values[inow]", "            cost = self._cost_short.values[-1]"),
    ("c04_unit_risk_next_row", ["C04", "C20"], "bt/algos.py", "        unit_risk = unit_risks.values[index]", "        unit_risk = unit_risks.values[min(index + 1, len(unit_risks) - 1)]"),
    ("c04_notional_peeks", ["C04", "C17"], "bt/algos.py", "            target.temp[\"notional_value\"] = notional_value.loc[target.now]", "            target.temp[\"notional_value\"] = notional_value.loc[target.now :].dropna().iloc[0] if len(notional_value.loc[target.now :].dropna()) else notional_value.loc[target.now]"),
    ("c04_momentum_peeks_one_day", ["C04"], "bt/algos.py", "        prc = target.universe.loc[t0 - self.lookback : t0, selected]\n        target.temp[\"stat\"] = prc.calc_total_return()", "        prc = target._universe.loc[t0 - self.lookback : t0 + pd.DateOffset(days=1), selected]\n        target.temp[\"stat\"] = prc.calc_total_return()"),
    # ---- C09
    ("c09_paper_amount", ["C09"], "bt/core.py", "            self._paper_amount = 1000000\n", "            self._paper_amount = 100000\n"),
    ("c09_paper_skipped_when_unfunded", ["C09"], "bt/core.py", "            if newpt:\n                self._paper.update(date)\n                self._paper.run()\n                self._paper.update(date)", "            if newpt and (self._capital != 0 or self._value != 0):\n                self._paper.update(date)\n                self._paper.run()\n                self._paper.update(date)"),
    ("c09_child_price_own_value", ["C09"], "bt/core.py", "            # update price\n            self._price = self._paper.price\n            self._prices.array[inow] = self._price", "            # update price\n            if is_zero(self._value):\n                self._price = self._paper.price\n            self._prices.array[inow] = self._price"),
    ("c09_paper_no_commissions", ["C09"], "bt/core.py", "            paper = deepcopy(self)\n", "            paper = deepcopy(self)\n            paper.commission_fn = paper._dflt_comm_fn\n"),
    ("c09_universe_col_lagged", ["C09"], "bt/core.py", "                self._universe.loc[date, c] = self.children[c].price", "                self._universe.loc[date, c] = self.children[c]._last_price"),
    # ---- C16
    ("c16_flag_without_flatten", ["C16"], "bt/core.py", "                self.bankrupt = True\n                self.flatten()", "                self.bankrupt = True"),
    ("c16_algos_still_run", ["C16"], "bt/backtest.py", "            if not self.strategy.bankrupt:\n                self.strategy.run()", "            if True:\n                self.strategy.run()"),
    ("c16_threshold_small_negative", ["C16"], "bt/core.py", "            if (val < 0) and not self.bankrupt and not self.fixed_income and not is_zero(val):", "            if (val < -0.2 * abs(self._last_value)) and not self.bankrupt and not self.fixed_income and not is_zero(val):"),
    ("c16_fi_flagged", ["C16", "C17"], "bt/core.py", "            if (val < 0) and not self.bankrupt and not self.fixed_income and not is_zero(val):", "            if (val < 0) and not self.bankrupt and not is_zero(val):"),
    ("c16_sub_flagged", ["C16"], "bt/core.py", "        if self.root == self:\n            if (val < 0)", "        if True:\n            if (val < 0)"),
    ("c16_flatten_only_own_securities", ["C16"], "bt/core.py", "            [self.close(c.name, update=False) for c in self._childrenv if c.value != 0]", "            [self.close(c.name, update=False) for c in self._childrenv if c.value != 0 and c._issec]"),
    ("c16_flag_next_date", ["C16"], "bt/core.py", "            if (val < 0) and not self.bankrupt and not self.fixed_income and not is_zero(val):", "            if (val < 0) and (self._value < 0) and not self.bankrupt and not self.fixed_income and not is_zero(val):"),
    # ---- C11
    ("c11_no_deepcopy_of_template", ["C11"], "bt/backtest.py", "        self.strategy = deepcopy(strategy)\n", "        self.strategy = strategy\n"),
    ("c11_rerun_reruns", ["C11"], "bt/backtest.py", "        if self.has_run:\n            return\n", "        if False:\n            return\n"),
    ("c11_data_nan_row_inplace", ["C11"], "bt/backtest.py", "        self.data = data_new\n", "        self.data = data_new\n        data.iloc[0, 0] = data.iloc[0, 0] * 1.0000001\n"),
    ("c11_universe_order_from_set", ["C11"], "bt/core.py", "            valid_filter = [c for c in universe.columns if c in tickers]", "            valid_filter = list(tickers.intersection(universe.columns))"),
    ("c11_children_not_copied", ["C11"], "bt/core.py", "                if dc:  # deepcopy object for possible later reuse\n                    c = deepcopy(c)", "                if dc and isinstance(c, str):  # deepcopy object for possible later reuse\n                    c = deepcopy(c)"),
    ("c11_additional_data_shared", ["C11"], "bt/backtest.py", "                new = pd.concat([empty_row, old])\n                self.additional_data[k] = new\n            elif", "                old.iloc[0, 0] = old.iloc[0, 0]\n                old.iloc[-1, -1] = 0.123 if old.dtypes.iloc[-1] == float else old.iloc[-1, -1]\n                new = pd.concat([empty_row, old])\n                self.additional_data[k] = new\n            elif"),
    # ---- C19
    ("c19_lazy_child_skips_integer_flag", ["C19"], "bt/core.py", "                    c._set_root(self.root)\n                    c.use_integer_positions(self.integer_positions)", "                    c._set_root(self.root)\n                    if not getattr(self, \"_setup_kwargs\", None) is not None:\n                        c.use_integer_positions(self.integer_positions)"),
    ("c19_commissions_one_level", ["C19", "C07"], "bt/core.py", "            if isinstance(c, StrategyBase):\n                c.set_commissions(fn)", "            if isinstance(c, StrategyBase):\n                c.commission_fn = fn"),
    ("c19_set_root_not_recursive", ["C19"], "bt/core.py", "        self.root = root\n        for c in self._childrenv:\n            c._set_root(root)", "        self.root = root"),
    ("c19_dict_rename_ignored", ["C19"], "bt/core.py", "                        c.name = name\n                        tmp.append(c)", "                        tmp.append(c)"),
    ("c19_universe_includes_undeclared_strats_tickers", ["C19"], "bt/core.py", "        if self._original_children_are_present:\n            # if we have universe_tickers defined", "        if self._original_children_are_present and not self._has_strat_children:\n            # if we have universe_tickers defined"),
    ("c19_duplicate_eager_overwrites", ["C19"], "bt/core.py", "                    if c.name in self.children:\n                        raise ValueError(\"Child %s already exists\" % c)\n", "                    if False:\n                        raise ValueError(\"Child %s already exists\" % c)\n"),
    ("c19_full_name_skips_level", ["C19"], "bt/core.py", "            return \"%s>%s\" % (self.parent.full_name, self.name)", "            return \"%s>%s\" % (self.parent.full_name if self.parent.parent is self.parent else self.parent.parent.full_name, self.name)"),
    # ---- C18
    ("c18_turnover_max", ["C18"], "bt/backtest.py", "        min_outlay = pd.DataFrame({\"pos\": outlaysp, \"neg\": outlaysn}).min(axis=1)", "        min_outlay = pd.DataFrame({\"pos\": outlaysp, \"neg\": outlaysn}).max(axis=1)"),
    ("c18_sweights_overwrite_same_name", ["C18"], "bt/backtest.py", "                    if m.name in vals:\n                        vals[m.name] += m_values\n                    else:", "                    if False:\n                        vals[m.name] += m_values\n                    else:"),
    ("c18_positions_overwrite_same_name", ["C18"], "bt/core.py", "                if x.name in vals.columns:\n                    vals[x.name] += x.positions\n                else:", "                if False:\n                    vals[x.name] += x.positions\n                else:"),
    ("c18_hhi_abs", ["C18"], "bt/backtest.py", "        return (w**2).sum(axis=1)", "        return w.abs().sum(axis=1)"),
    ("c18_weights_by_name", ["C18"], "bt/backtest.py", "                vals = pd.DataFrame({x.full_name: x.values for x in self.strategy.members})", "                vals = pd.DataFrame({x.name: x.values for x in self.strategy.members}).rename(columns={x.name: x.full_name for x in self.strategy.members})"),
    ("c18_tx_spread_sign", ["C18"], "bt/core.py", "            prc += bidoffer.unstack() / trades", "            prc += bidoffer.unstack() / trades.abs()"),
    ("c18_replay_window_inclusive_start", ["C18"], "bt/algos.py", "        transactions = all_transactions[(timestamps > start) & (timestamps <= end)]\n        for (_, security), transaction in transactions.iterrows():\n            c = target[security]\n            c.transact(transaction[\"quantity\"], price=transaction[\"price\"], update=False)\n\n        # Now update\n        target.root.update(target.now)\n\n        return True\n\n\nclass SimulateRFQTransactions", "        transactions = all_transactions[(timestamps >= start) & (timestamps <= end)]\n        for (_, security), transaction in transactions.iterrows():\n            c = target[security]\n            c.transact(transaction[\"quantity\"], price=transaction[\"price\"], update=False)\n\n        # Now update\n        target.root.update(target.now)\n\n        return True\n\n\nclass SimulateRFQTransactions"),
    ("c18_result_prices_rebased", ["C18"], "bt/backtest.py", "        tmp = [pd.DataFrame({x.name: x.strategy.prices}) for x in backtests]\n        super(Result, self).__init__(*tmp)", "        tmp = [pd.DataFrame({x.name: x.strategy.prices.iloc[1:]}) for x in backtests]\n        super(Result, self).__init__(*tmp)"),
    # ---- C06
    ("c06_cash_scales_base", ["C06"], "bt/algos.py", "            target.rebalance(item[1] * scale, child=item[0], base=base, update=False)", "            target.rebalance(item[1], child=item[0], base=base * scale, update=False)"),
    ("c06_non_targets_kept", ["C06"], "bt/algos.py", "            if v != 0.0 and not np.isnan(v):\n                target.close(cname, update=False)", "            if v > 0.0 and not np.isnan(v):\n                target.close(cname, update=False)"),
    ("c06_base_recomputed_each_child", ["C06"], "bt/algos.py", "            target.rebalance(item[1] * scale, child=item[0], base=base, update=False)", "            target.rebalance(item[1] * scale, child=item[0], update=True)"),
    ("c06_rebalance_delta_on_stale_weight", ["C06"], "bt/core.py", "            delta = weight - c.weight\n            c.allocate(delta * base, update=update)", "            delta = weight - (c._value / base if base else 0.0) * 0.98\n            c.allocate(delta * base, update=update)"),
    ("c06_substrategy_equal_split", ["C06"], "bt/core.py", "                [c.allocate(amount * c._weight, update=False) for c in self._childrenv]", "                [c.allocate(amount / len(self._childrenv), update=False) for c in self._childrenv]"),
    ("c06_rot_divides_by_n", ["C06"], "bt/algos.py", "                dlt = (self._weights[cname] - curr) / self._days_left", "                dlt = (self._weights[cname] - curr) / self.n"),
    ("c06_rot_never_disarms", ["C06"], "bt/algos.py", "            if self._days_left == 0:\n                self._days_left = None\n                self._weights = None", "            if self._days_left == 0:\n                self._days_left = 1"),
    ("c06_close_leaves_short", ["C06"], "bt/core.py", "            if c.value != 0.0 and not np.isnan(c.value):\n                c.allocate(-c.value, update=update)", "            if c.value > 0.0 and not np.isnan(c.value):\n                c.allocate(-c.value, update=update)"),
    # ---- C17
    ("c17_coupon_on_abs_position", ["C17", "C02"], "bt/core.py", "            self._coupon = self._position * coupon\n", "            self._coupon = abs(self._position) * coupon\n"),
    ("c17_short_cost_uses_long_table", ["C17"], "bt/core.py", "        elif self._position < 0 and self._cost_short is not None:\n            cost = self._cost_short.values[inow]", "        elif self._position < 0 and self._cost_long is not None:\n            cost = self._cost_long.values[inow]"),
    ("c17_notional_signed_sum", ["C17"], "bt/core.py", "                notl_val += abs(c.notional_value)", "                notl_val += c.notional_value"),
    ("c17_hedge_counts_notional", ["C17"], "bt/core.py", "        super(HedgeSecurity, self).update(date, data, inow)\n        self._notl_value = 0.0", "        super(HedgeSecurity, self).update(date, data, inow)\n        self._notl_value = self._value * 0.5"),
    ("c17_index_multiplicative", ["C17"], "bt/core.py", "                self._price = self._last_price + ret\n", "                self._price = self._last_price * (1 + ret / PAR)\n"),
    ("c17_index_uses_current_notional", ["C17"], "bt/core.py", "                if not is_zero(self._last_notl_value):\n                    ret = pnl / self._last_notl_value * PAR", "                if not is_zero(self._notl_value):\n                    ret = pnl / self._notl_value * PAR"),
    ("c17_rebalance_fi_ignores_base", ["C17"], "bt/core.py", "            if c.fixed_income:\n                delta = weight * base - c.weight * self.notional_value\n                c.transact(delta, update=update)", "            if c.fixed_income:\n                delta = weight * self.notional_value - c.weight * self.notional_value if self.notional_value else weight * base\n                c.transact(delta, update=update)"),
    ("c17_renorm_ignores_flows", ["C17"], "bt/backtest.py", "        returns = s.values.diff() - s.flows", "        returns = s.values.diff()"),
    ("c17_fisec_flag_dropped", ["C17"], "bt/core.py", "        self._fixed_income = True\n\n    @cy.locals(coupon=cy.double)", "        self._fixed_income = False\n\n    @cy.locals(coupon=cy.double)"),
    # ---- C20
    ("c20_risk_without_multiplier", ["C20"], "bt/algos.py", "                risk = unit_risk * target.position * target.multiplier", "                risk = unit_risk * target.position"),
    ("c20_risk_flat_not_zero", ["C20"], "bt/algos.py", "            if is_zero(target.position):\n                risk = 0.0\n            else:", "            if False:\n                risk = 0.0\n            else:"),
    ("c20_strategy_risk_skips_substrategies", ["C20"], "bt/algos.py", "                self._set_risk_recursive(child, depth + 1, unit_risk_frame)\n                risk += child.risk[self.measure]", "                self._set_risk_recursive(child, depth + 1, unit_risk_frame)\n                if isinstance(child, bt.core.SecurityBase):\n                    risk += child.risk[self.measure]"),
    ("c20_unit_risk_previous_row", ["C20", "C04"], "bt/algos.py", "        unit_risk = unit_risks.values[index]\n", "        unit_risk = unit_risks.values[max(index - 1, 0)]\n"),
    ("c20_hedge_no_multiplier", ["C20"], "bt/algos.py", "_get_unit_risk(s, d, i) * multiplier(s) for (i, d) in data]", "_get_unit_risk(s, d, i) for (i, d) in data]"),
    ("c20_hedge_sign", ["C20"], "bt/algos.py", "        notionals = np.matmul(inv, -target_risk).flatten()", "        notionals = np.matmul(inv, target_risk).flatten()"),
    ("c20_close_strictly_after", ["C20"], "bt/algos.py", "        is_closed = close_dates.loc[sec_names] <= target.now", "        is_closed = close_dates.loc[sec_names] < target.now"),
    ("c20_close_not_remembered", ["C20"], "bt/algos.py", "            target.close(sec_name, update=False)\n            target.perm[\"closed\"].add(sec_name)", "            target.close(sec_name, update=False)"),
    ("c20_roll_ignores_factor", ["C20"], "bt/algos.py", "                new_quantity = sec_fields[\"factor\"] * target[sec_name].position", "                new_quantity = target[sec_name].position"),
    ("c20_roll_repeats", ["C20"], "bt/algos.py", "            if sec_fields[\"date\"] <= target.now:\n                target.perm[\"rolled\"].add(sec_name)", "            if sec_fields[\"date\"] <= target.now:\n                pass"),
    ("c20_roll_keeps_source", ["C20"], "bt/algos.py", "                    transactions[new_sec] = new_quantity\n                target.close(sec_name, update=False)", "                    transactions[new_sec] = new_quantity"),
    # ---- C10
    ("c10_no_nan_price_guard", ["C10"], "bt/core.py", "        if is_zero(self._price) or np.isnan(self._price):\n            raise Exception(\"Cannot allocate capital", "        if False:\n            raise Exception(\"Cannot allocate capital"),
    ("c10_nan_position_value_zero", ["C10"], "bt/core.py", "            if is_zero(self._position):\n                self._value = 0\n            else:\n                raise Exception(\"Position is open", "            if True:\n                self._value = 0\n            else:\n                raise Exception(\"Position is open"),
    ("c10_nan_coupon_silent", ["C10"], "bt/core.py", "            if is_zero(self._position):\n                self._coupon = 0.0\n            else:\n                raise Exception(\"Position is open (non-zero) and latest coupon", "            if True:\n                self._coupon = 0.0\n            else:\n                raise Exception(\"Position is open (non-zero) and latest coupon"),
    ("c10_duplicate_columns_accepted", ["C10"], "bt/backtest.py", "        if data.columns.duplicated().any():", "        if False and data.columns.duplicated().any():"),
    ("c10_zero_base_ret_zero", ["C10"], "bt/core.py", "                    if is_zero(self._value):\n                        ret = 0\n                    else:\n                        raise ZeroDivisionError(", "                    if True:\n                        ret = 0\n                    else:\n                        raise ZeroDivisionError("),
    ("c10_fi_zero_base_ret_zero", ["C10"], "bt/core.py", "                    if is_zero(pnl):\n                        ret = 0\n                    else:\n                        raise ZeroDivisionError(", "                    if True:\n                        ret = 0\n                    else:\n                        raise ZeroDivisionError("),
    ("c10_fi_nesting_allowed", ["C10"], "bt/core.py", "        if self.fixed_income and not self.parent.fixed_income:", "        if False and self.fixed_income and not self.parent.fixed_income:"),
    ("c10_custom_price_no_check", ["C10"], "bt/core.py", "        if price is not None and not self._bidoffer_set:", "        if False and price is not None and not self._bidoffer_set:"),
    ("c10_stats_inf", ["C10"], "bt/core.py", "        self._cash.array[inow] = self._capital\n", "        self._cash.array[inow] = self._capital if self._capital >= 0 else np.nan\n"),
    ("c10_values_read_only_again", ["C10"], "bt/core.py", "        self._positions.array[inow] = self._position\n", "        self._positions.values[inow] = self._position\n"),
    # ---- C08
    ("c08_fee_reset_every_update", ["C08", "C07"], "bt/core.py", "        # update now\n        self.now = date\n        if inow is None:\n            if self.now == 0:\n                inow = 0\n            else:\n                inow = self.data.index.get_loc(date)\n\n        # update children if any and calculate value", "        # update now\n        self.now = date\n        self._last_fee = 0.0\n        if inow is None:\n            if self.now == 0:\n                inow = 0\n            else:\n                inow = self.data.index.get_loc(date)\n\n        # update children if any and calculate value"),
    ("c08_outlay_row_accumulates", ["C08", "C07"], "bt/core.py", "            self._outlays.array[inow] += self._outlay\n            # reset outlay back to 0\n            self._outlay = 0\n", "            self._outlays.array[inow] += self._outlay\n"),
]


def run(cmd, env=None, cwd=None, timeout=3600):
    e = dict(os.environ)
    if env:
        e.update(env)
    p = subprocess.run(cmd, shell=True, cwd=cwd, env=e, capture_output=True, text=True, timeout=timeout)
    return p.returncode, p.stdout + p.stderr


def main():
    ap = argparse.ArgumentParser()
    ap.add_argument("-p", default=None)
    ap.add_argument("-m", default=None)
    ap.add_argument("--tier", default="quick")
    ap.add_argument("--no-tests", action="store_true")
    ap.add_argument("--all-props", action="store_true", help="run every listed property, not only the first")
    a = ap.parse_args()
    props = set(a.p.split(",")) if a.p else None
    results = []
    extra = []
    p_extra = os.path.join(VERIF, "tools", "mutants_extra.json")
    if os.path.exists(p_extra):
        extra = [tuple(x) for x in json.load(open(p_extra))]
    for name, pids, f, old, new in MUTANTS + extra:
        if a.m and a.m not in name:
            continue
        if props and not (props & set(pids)):
            continue
        d = "/tmp/mut_%s" % name
        shutil.rmtree(d, ignore_errors=True)
        os.makedirs(d)
        run("git -C /repo archive HEAD | tar -x -C %s" % d)
        src = open(os.path.join(d, f)).read()
        if src.count(old) != 1:
            print("%-45s SKIP: pattern found %d times" % (name, src.count(old)))
            shutil.rmtree(d, ignore_errors=True)
            continue
        open(os.path.join(d, f), "w").write(src.replace(old, new))
        tests = "skipped"
        if not a.no_tests:
            rc, out = run("PYTHONPATH=%s /venv/bin/python -m pytest -q -x -p no:cacheprovider tests 2>&1 | tail -3" % d, cwd=d)
            tests = "pass" if " passed" in out and "failed" not in out else "FAIL"
        row = {"mutant": name, "tests": tests, "checks": {}}
        todo = [p for p in pids if (not props or p in props)]
        if not a.all_props and not props:
            todo = todo[:1]
        for pid in todo:
            if not os.path.exists(os.path.join(VERIF, "vlib", "props", pid.lower() + ".py")):
                continue
            t0 = time.time()
            rc, out = run("./check %s --tier %s" % (pid, a.tier), env={"VERIF_REPO": d, "VERIF_OUT": "/tmp/mut_out"}, cwd=VERIF)
            verdict = {0: "MISSED", 1: "caught", 2: "harness-error"}.get(rc, "rc=%d" % rc)
            v = [l for l in out.splitlines() if l.startswith("violation[")]
            row["checks"][pid] = {"verdict": verdict, "wall": round(time.time() - t0, 1), "first": (v[0][:200] if v else "")}
        shutil.rmtree(d, ignore_errors=True)
        print("%-45s tests=%s %s" % (name, tests, " ".join("%s=%s(%.0fs)" % (k, v["verdict"], v["wall"]) for k, v in row["checks"].items())))
        for k, v in row["checks"].items():
            if v["first"]:
                print("      %s: %s" % (k, v["first"]))
        sys.stdout.flush()
        results.append(row)
    shutil.rmtree("/tmp/mut_out", ignore_errors=True)
    print(json.dumps({"caught": sum(1 for r in results for v in r["checks"].values() if v["verdict"] == "caught"), "missed": [(r["mutant"], k) for r in results for k, v in r["checks"].items() if v["verdict"] != "caught"]}))


if __name__ == "__main__":
    main()
