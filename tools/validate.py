"""Validate MANIFEST.json and evidence files against the schemas (run with python3-vt)."""
import glob, json, sys
import jsonschema
m = json.load(open('/verif/MANIFEST.json')); jsonschema.validate(m, json.load(open('/root/.vp/MANIFEST.schema.json')))
es = json.load(open('/root/.vp/EVIDENCE.schema.json'))
for f in sorted(glob.glob('/verif/evidence/*.json')):
    e = json.load(open(f)); jsonschema.validate(e, es)
    print(f.split('/')[-1], e["tier"], e["coverage"]["evaluations"], e["coverage"]["distinct_nontrivial"], "viol=%s" % e.get("violations"), "wall=%s" % e["wall_s"])
ids = {c["property_id"] for c in m["checks"]} | {c["property_id"] for c in m.get("not_applicable", [])}
assert ids == {"C%02d" % i for i in range(1, 21)}, ids
print("manifest ok: %d checks, %d n/a" % (len(m["checks"]), len(m.get("not_applicable", []))))
