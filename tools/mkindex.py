"""Regenerate the table of seeded/INDEX.md from the meta.json files (the header paragraph is kept)."""
import glob
import json
import os

V = os.path.dirname(os.path.dirname(os.path.abspath(__file__)))
p = os.path.join(V, "seeded", "INDEX.md")
head = open(p).read().split("| change |")[0]


def key(d):
    n = os.path.basename(d)
    r = int(n[1]) if n[0] == "R" and n[1].isdigit() else 1
    return (r, n.split("_")[1] if r > 1 else n[:3])


rows = []
for d in sorted(glob.glob(os.path.join(V, "seeded", "*", "")), key=lambda d: key(d.rstrip("/"))):
    m = json.load(open(os.path.join(d, "meta.json")))
    res = "; ".join("%s -> %s" % (k, v["verdict"]) for k, v in sorted(m.get("results", {}).items()))
    first = m.get("first_run_before_strengthening", "?")
    if m.get("first_run_detail"):
        first += " (%s)" % m["first_run_detail"]
    rows.append("| %s | %s | %s | %s |" % (m.get("name", os.path.basename(d.rstrip("/"))), m["property"], first, res))
open(p, "w").write(head + "| change | property | first run | checks now |\n|---|---|---|---|\n" + "\n".join(rows) + "\n")
print(len(rows), "rows")
