#!/bin/bash
# Re-run the quick check of every filed seeded change of the given properties (all properties when none is given) against a scratch copy
# of /repo's HEAD with the change applied (tools/seeded.py --rerun); one line per change. Serial: each check already uses all cores.
# usage: tools/rerun_seeded.sh [C04 C05 ...]
cd "$(dirname "$0")/.."
props="$@"
[ -z "$props" ] && props="C01 C02 C03 C04 C05 C06 C07 C08 C09 C10 C11 C12 C13 C14 C15 C16 C17 C18 C19 C20"
for p in $props; do
  for d in seeded/*/; do
    [ -f $d/meta.json ] || continue
    pp=$(python3 -c "import json;print(json.load(open('$d/meta.json'))['property'])")
    if [ "$pp" == "$p" ]; then
      python3 tools/seeded.py --rerun $(basename $d) 2>&1 | tail -1
    fi
  done
done
