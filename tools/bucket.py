"""Enumerate failure buckets of one sub-check without stopping at the first failure.
usage: python -m tools.bucket C05 allocate 20000 [seed]"""
import json
import sys
from collections import Counter

import hypothesis
from hypothesis import HealthCheck, Phase, given, settings

sys.path.insert(0, "/verif")
from vlib import harness  # noqa
from vlib.harness import Discard, Violation  # noqa


def main():
    pid, sub, n = sys.argv[1], sys.argv[2], int(sys.argv[3])
    seed = int(sys.argv[4]) if len(sys.argv) > 4 else 1
    kind = sys.argv[5] if len(sys.argv) > 5 and sys.argv[5] in ("py", "cy") else "py"
    import importlib

    mod = importlib.import_module("vlib.props.%s" % pid.lower())
    ctx = harness.Ctx(pid, "quick", seed, 0, 1, kind=kind)
    strat = mod.STRATS[sub]() if hasattr(mod, "STRATS") else None
    buckets, small, labels = Counter(), {}, Counter()
    tot = [0, 0]

    @hypothesis.seed(seed)
    @settings(max_examples=n, database=None, deadline=None, suppress_health_check=list(HealthCheck), phases=[Phase.generate])
    @given(strat)
    def t(spec):
        tot[0] += 1
        try:
            r = mod.SUBS[sub](ctx, spec)
            for l in (r or {}).get("labels", []):
                labels[l] += 1
            if (r or {}).get("nontrivial"):
                tot[1] += 1
        except Discard as d:
            buckets["DISCARD:" + d.reason] += 1
        except Violation as v:
            buckets[v.signature] += 1
            k = v.signature
            if k not in small or len(harness.canon(spec)) < len(harness.canon(small[k][0])):
                small[k] = (spec, v.msg)

    t()
    print("cases", tot[0], "nontrivial", tot[1])
    for k, c in buckets.most_common():
        print("%6d  %s" % (c, k))
        if k in small:
            print("        ", small[k][1][:300])
            print("        ", harness.canon(small[k][0])[:600])
    import os, re
    os.makedirs("/tmp/bucket", exist_ok=True)
    for k, (spec, msg) in small.items():
        json.dump({"spec": spec, "message": msg, "sub": sub}, open("/tmp/bucket/%s.json" % re.sub(r"[^A-Za-z0-9_.-]+", "_", k)[:80], "w"))
    if "-l" in sys.argv:
        for k, c in sorted(labels.items()):
            print("   label %-40s %d" % (k, c))


main()
