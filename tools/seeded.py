"""Confirm and file an independently written breaking change.

usage: python tools/seeded.py <name> <property id> <dir with patch.diff, demo.py[, notes.md]> [--checks C01,C07] [--tier quick]

In a scratch archive of /repo's HEAD under /tmp (removed afterwards):
  1. the repository's tests pass without and with the patch;
  2. the demonstration exits 0 without the patch and non-zero with it;
  3. the listed property checks (default: the property itself) are run with VERIF_REPO at the patched copy.
The change is then filed under /verif/seeded/<name>/ (patch.diff, demo.py, notes.md, meta.json).
Also usable to re-run the checks against an already filed change: python tools/seeded.py --rerun <name> [--tier thorough]
"""
import argparse
import json
import os
import shutil
import subprocess
import sys
import time

VERIF = os.path.dirname(os.path.dirname(os.path.abspath(__file__)))


def run(cmd, cwd=None, env=None, timeout=7200):
    e = dict(os.environ)
    e.update(env or {})
    p = subprocess.run(cmd, shell=True, cwd=cwd, env=e, capture_output=True, text=True, timeout=timeout)
    return p.returncode, p.stdout + p.stderr


def main():
    ap = argparse.ArgumentParser()
    ap.add_argument("name")
    ap.add_argument("pid", nargs="?")
    ap.add_argument("src", nargs="?")
    ap.add_argument("--checks", default=None)
    ap.add_argument("--tier", default="quick")
    ap.add_argument("--rerun", action="store_true")
    ap.add_argument("--seed", default="1")
    a = ap.parse_args()
    dst = os.path.join(VERIF, "seeded", a.name)
    if a.rerun:
        meta = json.load(open(os.path.join(dst, "meta.json")))
        src = dst
        pid = meta["property"]
    else:
        src, pid = a.src, a.pid
        meta = {"name": a.name, "property": pid}
    checks = a.checks.split(",") if a.checks else meta.get("checks_run", [pid])
    work = "/tmp/seedchk_%s" % a.name
    shutil.rmtree(work, ignore_errors=True)
    os.makedirs(work)
    run("git -C /repo archive HEAD | tar -x -C %s" % work)
    env = {"PYTHONPATH": work}
    out = {}
    # demos may locate the library relative to their own path (<worktree>/out/demo.py): run a copy placed the same way
    os.makedirs(os.path.join(work, "out"), exist_ok=True)
    shutil.copy(os.path.join(src, "demo.py"), os.path.join(work, "out", "demo.py"))
    demo = os.path.join(work, "out", "demo.py")
    if not a.rerun:
        rc, o = run("/venv/bin/python -m pytest -q -p no:cacheprovider tests 2>&1 | tail -2", cwd=work, env=env)
        out["tests_without"] = o.strip().splitlines()[-1] if o.strip() else ""
        rc0, o0 = run("/venv/bin/python %s" % demo, cwd=work, env=env)
        out["demo_without_rc"] = rc0
    rc, o = run("git apply --directory=%s --unsafe-paths %s 2>&1 || (cd %s && patch -p1 < %s)" % (work, os.path.join(src, "patch.diff"), work, os.path.join(src, "patch.diff")))
    if rc != 0:
        print("PATCH DOES NOT APPLY:\n" + o)
        shutil.rmtree(work, ignore_errors=True)
        return 2
    if not a.rerun:
        rc, o = run("/venv/bin/python -m pytest -q -p no:cacheprovider tests 2>&1 | tail -2", cwd=work, env=env)
        out["tests_with"] = o.strip().splitlines()[-1] if o.strip() else ""
        rc1, o1 = run("/venv/bin/python %s" % demo, cwd=work, env=env)
        out["demo_with_rc"] = rc1
        out["demo_with_output"] = o1.strip()[-400:]
        ok = "passed" in out["tests_without"] and "failed" not in out["tests_without"] and "passed" in out["tests_with"] and "failed" not in out["tests_with"] and rc0 == 0 and rc1 != 0
        out["confirmed"] = ok
        print(json.dumps(out, indent=1))
        if not ok:
            print("NOT CONFIRMED - not filed")
            shutil.rmtree(work, ignore_errors=True)
            return 1
    results = meta.get("results", {})
    for c in checks:
        t0 = time.time()
        rc, o = run("./check %s --tier %s --seed %s" % (c, a.tier, a.seed), cwd=VERIF, env={"VERIF_REPO": work, "VERIF_OUT": "/tmp/seedchk_out_%s" % a.name})
        verdict = {0: "MISSED", 1: "caught", 2: "harness-error"}.get(rc, "rc=%d" % rc)
        first = [l for l in o.splitlines() if l.startswith("violation[")]
        results["%s:%s" % (c, a.tier)] = {"verdict": verdict, "wall_s": round(time.time() - t0, 1), "first_violation": first[0][:300] if first else "", "seed": a.seed}
        print("%s %s tier=%s -> %s (%.0fs) %s" % (a.name, c, a.tier, verdict, time.time() - t0, first[0][:200] if first else ""))
    shutil.rmtree(work, ignore_errors=True)
    shutil.rmtree("/tmp/seedchk_out_%s" % a.name, ignore_errors=True)
    os.makedirs(dst, exist_ok=True)
    if not a.rerun:
        shutil.copy(os.path.join(src, "patch.diff"), os.path.join(dst, "patch.diff"))
        shutil.copy(os.path.join(src, "demo.py"), os.path.join(dst, "demo.py"))
        if os.path.exists(os.path.join(src, "notes.md")):
            shutil.copy(os.path.join(src, "notes.md"), os.path.join(dst, "notes.md"))
        meta.update(
            {
                "breaks": pid,
                "source": "independent sub-agent given only the property text and a scratch worktree",
                "needs_to_manifest": "see notes.md",
                "confirmation": {
                    "repo_head": subprocess.run("git -C /repo rev-parse --short HEAD", shell=True, capture_output=True, text=True).stdout.strip(),
                    "tests_without_patch": out["tests_without"],
                    "tests_with_patch": out["tests_with"],
                    "demo_rc_without_patch": out["demo_without_rc"],
                    "demo_rc_with_patch": out["demo_with_rc"],
                    "demo_output_with_patch": out["demo_with_output"],
                    "how": "tools/seeded.py: scratch archive of HEAD under /tmp, PYTHONPATH at the copy, pytest tests, python demo.py, then ./check with VERIF_REPO at the patched copy",
                },
            }
        )
    meta["checks_run"] = sorted(set(meta.get("checks_run", []) + checks))
    meta["results"] = results
    json.dump(meta, open(os.path.join(dst, "meta.json"), "w"), indent=1, sort_keys=True)
    return 0


if __name__ == "__main__":
    sys.exit(main())
