#!/bin/bash
# run the repository's tests against the interpreted working tree of /repo (the git-ignored compiled core.*.so in /repo/bt shadows core.py there)
set -e
W=$(mktemp -d /tmp/repotests.XXXXXX)
mkdir -p $W/bt
cp /repo/bt/*.py $W/bt/
cp -r /repo/tests $W/tests
[ -f /repo/setup.cfg ] && cp /repo/setup.cfg $W/ || true
[ -f /repo/pyproject.toml ] && cp /repo/pyproject.toml $W/ || true
cd $W
PYTHONPATH=$W /venv/bin/python -m pytest -q -p no:cacheprovider tests 2>&1 | tail -${1:-3}
cd /; rm -rf $W
