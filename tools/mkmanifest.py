"""Regenerate /verif/MANIFEST.json from the table below (run: /venv/bin/python tools/mkmanifest.py)."""
import json
import os

VERIF = os.path.dirname(os.path.dirname(os.path.abspath(__file__)))

# id -> (technique, level text, level note, design section)
CHECKS = {
    "C05": (
        "Hypothesis-generated direct allocate calls vs an independent cost function and bisection oracle",
        "Generated-input search (40k quick / 1.5M thorough direct calls over price x multiplier x position x amount x spread x commission spec x mode) against an "
        "independent cost model: budget respected, maximal whole quantity, fractional equality, close-out, zero amount, refusal at NaN/zero price. No counterexample = "
        "evidence over the sampled domain, not a proof.",
        "Trusts the harness cost function (q*p*m + |q|*s/2*m + fee, zero for no trade) and the stated commission domain (one-unit commission + half-spread < 0.9 unit price).",
        "5/C05",
    ),
    "C10": (
        "grammar-generated whole backtests (Hypothesis) with finiteness oracle and exception bucketing; generated ill-formed classes must raise",
        "Generated-input search: every grammar-generated well-formed backtest must run, every report accessor must complete, every recorded number must be finite, on the "
        "installed pandas/numpy (interpreted build in quick, interpreted + compiled in thorough); each ill-formed class is generated in many variants and must raise.",
        "Well-formedness is enforced by the generator (prices finite and positive wherever selected/held); third-party optimiser non-convergence is discarded and counted.",
        "5/C10",
    ),
}

NOT_YET = {}

ALL = ["C%02d" % i for i in range(1, 21)]


def main():
    checks = []
    for pid in ALL:
        if pid not in CHECKS:
            continue
        tech, text, note, ref = CHECKS[pid]
        checks.append(
            {
                "property_id": pid,
                "quick_cmd": "./check %s --tier quick" % pid,
                "thorough_cmd": "./check %s --tier thorough" % pid,
                "evidence_file": "evidence/%s.json" % pid,
                "replay_cmd_template": "./check %s --replay {path}" % pid,
                "engine": "hypothesis",
                "level_claimed": {"category": "exploration", "text": text, "design_ref": "DESIGN.md section " + ref},
                "level_note": note,
                "technique": tech,
            }
        )
    na = []
    for pid in ALL:
        if pid not in CHECKS:
            na.append({"property_id": pid, "reason": NOT_YET.get(pid, "check not built yet in this round; property-based testing applies (see DESIGN.md section 5) and the check is planned")})
    man = {
        "version": 1,
        "setup_cmd": "/venv/bin/python -c 'import hypothesis' 2>/dev/null || /venv/bin/pip install --no-index --find-links /opt/veriftools/wheels hypothesis; /venv/bin/python -m vlib.build py",
        "hooks": {
            "guard": "PMORISSETTE_BT_VERIF",
            "enable": "no source hooks: checks copy /repo/bt/*.py (working tree) into /verif/.build/<hash>/ and wrap methods from the harness; the variable is set by the checks but read by nothing in /repo",
            "baseline_off_cmd": "cd /repo && /venv/bin/python -m pytest -ra -q -p no:cacheprovider --timeout=900 --continue-on-collection-errors",
            "source_commits": [],
            "add_only": True,
        },
        "engines": [
            {
                "name": "hypothesis",
                "path": "vlib/",
                "serves_properties": sorted(CHECKS),
                "kind_free_text": "Hypothesis 6.168 strategies produce plain-data specs; vlib/interp.py interprets them against bt built from /repo's working tree; "
                "oracles are reference models / metamorphic relations / validity predicates in vlib/props; exhaustive enumeration for small finite domains",
            }
        ],
        "checks": checks,
        "not_applicable": na,
        "notes": "Genuine defects found by the checks and repaired in /repo are listed in known_findings.json ('fixed' entries, with commit ids); open findings, if any, are listed there too.",
    }
    with open(os.path.join(VERIF, "MANIFEST.json"), "w") as fh:
        json.dump(man, fh, indent=1)
    print("wrote MANIFEST.json with %d checks, %d not_applicable" % (len(checks), len(na)))


if __name__ == "__main__":
    main()
