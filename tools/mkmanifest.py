"""Regenerate /verif/MANIFEST.json from the table below (run: /venv/bin/python tools/mkmanifest.py)."""
import json
import os

VERIF = os.path.dirname(os.path.dirname(os.path.abspath(__file__)))

# id -> (technique, level text, level note, design section)
CHECKS = {
    "C01": (
        "model-based operation histories (Hypothesis-generated op lists interpreted against bt and a reference accounting model) + probe algo inside generated backtests",
        "Generated histories of adjust/allocate/transact/rebalance/close/flatten/date changes on generated trees; after every operation the balance-sheet identities are checked on the "
        "live tree and against an independent reference model fed with the executed quantities; recorded rows are compared with end-of-date snapshots. Exploration only: no counterexample in N cases.",
        "Observation follows bt's lazy-update protocol (read after an operation with default flags). The model takes executed trade quantities and strategy-level allocation amounts from harness spies; tolerance 1e-9 relative + 1e-7.",
        "5/C01",
    ),
    "C02": (
        "model-based operation histories + day-by-day P&L attribution recomputed from recorded series of generated backtests",
        "Per-operation conservation (root value moves by exactly minus the costs of the trades executed) on generated histories, and the day-by-day attribution identity recomputed from the "
        "recorded series for the root and every sub-strategy of generated histories, grammar backtests, fixed-income backtests with carry, and backtests that re-open a security after idle dates through each trading path.",
        "Non-flow adjustments and flows injected directly into descendants are known to the driver; tolerance 1e-9 relative + 1e-6.",
        "5/C02",
    ),
    "C03": (
        "recurrence oracle on recorded series + model-based histories + two metamorphic relations between whole runs (capital scaling, flows on zero-P&L dates)",
        "Index recurrence on every date of generated backtests, intra-date recurrence after every operation of generated histories with the model's own accumulators, and two metamorphic "
        "relations between whole runs (scale invariance; flows on zero-P&L dates do not move the index); fees under side-dependent commission models recomputed from the transaction list.",
        "Flow neutrality is read as 'a flow by itself produces no return' (the stated recurrence dilutes a same-date P&L); metamorphic relations only on the scale-free grammar subset and solvent runs.",
        "5/C03",
    ),
    "C05": (
        "Hypothesis-generated direct allocate calls vs an independent cost function and bisection oracle (thorough tier: plus a coverage-guided atheris campaign on the same oracle)",
        "Generated-input search (40k quick / 1.5M thorough direct calls over price x multiplier x position x amount x spread x commission spec x mode) against an "
        "independent cost model: budget respected, maximal whole quantity, fractional equality, close-out, zero amount, refusal at NaN/zero price; the same cases with the security under a sub-strategy whose commission schedule differs from the root's; refusals also on securities quoted, or held and closed, the date before. No counterexample = "
        "evidence over the sampled domain, not a proof.",
        "Trusts the harness cost function (q*p*m + |q|*s/2*m + fee, zero for no trade) and the stated commission domain (one-unit commission + half-spread < 0.9 unit price).",
        "5/C05",
    ),
    "C07": (
        "model-based operation histories with per-trade spies + ledger identity recomputed from recorded series of generated backtests",
        "Every executed trade is observed through a spy (parent cash delta, commission calls), per-date fees/flows/outlays/bid-offer rows are compared with the reference model after every "
        "operation, and the per-node per-date cash ledger identity is recomputed from the recorded series of generated histories, grammar backtests and leveraged / short backtests that go bankrupt (the liquidation is booked on its own date).",
        "CapitalFlow only on the root in generated backtests; tolerance 1e-9 relative + 1e-7.",
        "5/C07",
    ),
    "C08": (
        "twin execution of generated histories (plain vs with generated redundant updates and reads) with bit-identical snapshot comparison; noisy vs plain generated backtests",
        "Two identical trees execute the same generated history, one with extra generated update calls and property reads; snapshots must be bit-identical after every step, past rows frozen, "
        "no accessor beyond now; plus grammar backtests with and without a noise algo; plus histories with deferred operations (update=False) and generated placements of the closing "
        "update, where the rows of earlier dates (read from the raw arrays) must never change once the clock has moved; rebalance with an explicit base called while a change is pending == the same call after a refresh.",
        "Noise is placed between operations issued with default update flags (never inside an update=False batch); under deferred operations only the append-only clause is judged.",
        "5/C08",
    ),
    "C10": (
        "grammar-generated whole backtests (Hypothesis) with finiteness oracle and exception bucketing; generated ill-formed classes must raise",
        "Generated-input search: every grammar-generated well-formed backtest must run, every report accessor must complete, every recorded number must be finite, on the "
        "installed pandas/numpy (interpreted build in quick, interpreted + compiled in thorough); (15 classes, among them a trade on a date the bid/offer spread is NaN and hedge P&L after the notional was wound down to zero); report accessors asked for in a generated order straight after grammar, fixed-income and maturing-securities runs complete with finite weights; each ill-formed class is generated in many variants and must raise.",
        "Well-formedness is enforced by the generator (prices finite and positive wherever selected/held); third-party optimiser non-convergence is discarded and counted.",
        "5/C10",
    ),
}

CHECKS.update(
    {
        "C12": (
            "exhaustive enumeration of the period comparators over all day pairs in a 42-year window (thorough) + Hypothesis-generated indices/flags/call sequences vs datetime-only reference oracles",
            "Comparator table enumerated completely within the stated bound in the thorough tier (quick: year-end straddles + strided sample); RunPeriod.__call__ and the counting/date "
            "schedulers are searched with generated indices, flag combinations and call sequences against reference implementations; schedulers joined by Or / Not / consecutive stack positions inside real backtests pass the gate exactly on the union / intersection of their own dates.",
            "First/last date are governed by their flags only (pinned by the repository's own test); week = ISO week.",
            "5/C12",
        ),
        "C13": (
            "exhaustive truth tables of stacks up to length 6 (and one level of nesting) against a reference interpreter + Hypothesis recursive stack trees + spy algos inside generated backtests",
            "All 55,987 flat stacks of length 0-6 over {T,F}x{plain, run_always True/False}, one-level nested stacks/Or/Not and the Require table are enumerated completely; deeper nestings, "
            "Strategy.run ordering/temp/perm (inside backtests and for strategies run as constructed, interleaved) and RunIfOutOfBounds are searched with generated cases.",
            "Algos return real bools; the cash metric of RunIfOutOfBounds is only constrained at its two extremes.",
            "5/C13",
        ),
    }
)

CHECKS.update(
    {
        "C14": (
            "Hypothesis-generated universes/dates/parameters per selection algo vs an independent reference on raw arrays (validity predicate for ranked selection)",
            "For each of the 13 selection/statistic algos, generated universes with late listings, NaN gaps, zero/negative prices and ties, generated prior temp contents and all parameter "
            "combinations; temp['selected']/temp['stat'] right after the call is compared with a reference that never touches pandas windows; SelectActive also inside real backtests with maturity dates and a date-varying signal.",
            "include_no_data=True disables both tradability filters; look-back windows at least as long as the largest calendar gap; frames only name universe tickers.",
            "5/C14",
        ),
        "C15": (
            "Hypothesis-generated selections/windows/limits per weighting algo vs documented relations recomputed independently with numpy",
            "For each of the 12 weighting algos, generated clean price histories with distinct volatilities, selections of size 0/1/many, windows, lags, limits and live portfolios; the documented "
            "relation (1/n, inv-vol product constant, equal risk contributions, cap/total/proportions, delta limit, ex-ante vol == target on every call of a multi-date sequence, PTE trigger) is recomputed independently.",
            "WeighMeanVar optimality is not checked; ERC within 2% of the equal share; ffn's slsqp ERC variant and degenerate covariances are discarded; one open finding in the ffn dependency (LimitWeights, zero remainder).",
            "5/C15",
        ),
    }
)

CHECKS.update(
    {
        "C04": (
            "metamorphic pairs of whole runs: a generated backtest vs the same backtest with every value dated after a generated cut perturbed; bit-identical prefix oracle",
            "Generated backtests over the whole stock-algo grammar (look-back/lag algos, nested trees, bid/offer, signals, dated weights, stat frames) are run twice, the second time with all "
            "supplied values after a generated cut date perturbed (prices, listings, gaps, spreads, signals, weights, statistics, coupons, holding costs, notional schedules, unit-risk tables; "
            "families for fixed-income books, HedgeRisks trees, TargetVol and PTE_Rebalance; transaction / RFQ blotters with their own stamps in any row order under ReplayTransactions and SimulateRFQTransactions; a missed print while flat with the ticker delisted after the cut); all node histories and transactions up to the cut must be bit-identical.",
            "Only stock algos are quantified; index and columns are not perturbed; both runs use the same RNG seeds.",
            "5/C04",
        ),
    }
)

CHECKS.update(
    {
        "C09": (
            "differential pairs of whole runs: every sub-strategy of a generated nested backtest vs a stand-alone Backtest of the same definition (Hypothesis-generated)",
            "Generated nested backtests with deterministic calendar-gated children and arbitrary parents/allocation schedules; each sub-strategy's index is compared date for date with the "
            "index of a stand-alone backtest of the same definition, and with the column the parent sees; one family ends every child's stack with a stateful algo (RebalanceOverTime marked run_always).",
            "Children use no RNG algos and a calendar gate (the statement's quantifier); definitions that go bankrupt (leveraged / short children) are compared too.",
            "5/C09",
        ),
    }
)

CHECKS.update(
    {
        "C16": (
            "Hypothesis-generated leveraged/short backtests with a spy algo; independent mark-to-market reference decides the flag date; invariants over the recorded history",
            "Generated leveraged and short portfolios on jumpy price paths (flat, nested with leveraged children, fixed-income roots as negative class); an independent mark-to-market from the "
            "recorded positions decides when value first goes below zero; flag, liquidation at that date's prices, zero positions, constant value/cash and the spy algo's call log are checked.",
            "Borderline cases (|value| < 1e-6 x capital at some date) are discarded, so the strictness of '< 0' at exactly zero is not decided.",
            "5/C16",
        ),
    }
)

CHECKS.update(
    {
        "C11": (
            "Hypothesis-generated construction/run schedules over one template with deep fingerprint and differential oracles; same spec across fresh processes with different PYTHONHASHSEED",
            "Generated schedules (1-3 backtests from one template, any construction/run order, repeated run()) with deep fingerprints of template and input frames and a differential "
            "comparison against a lone backtest (grammar, fixed-income, unit-risk, close/roll-table and TargetVol/PTE families); benchmark_random must leave its template alone; generated specs "
            "re-executed in fresh interpreter processes under several hash seeds must give bit-identical histories (own family: targets shrinking under LimitDeltas with commissions); sub-strategies opened during a run leave the caller's frame and Backtest.data unchanged.",
            "random / numpy.random are seeded from the spec immediately before each run; the harness owns process creation.",
            "5/C11",
        ),
    }
)

CHECKS.update(
    {
        "C19": (
            "Hypothesis-generated construction programs with a structural oracle; probe algos checking universe columns inside generated backtests; lazy-vs-eager differential runs",
            "Generated construction programs (lists, dicts with renaming, strings, pre-built and lazily-added securities, nested strategies, late attachment, duplicates) are checked against the "
            "described structure, and a second tree built from the very same child objects must share no node with the first; generated backtests check every strategy's universe columns and sub-strategy columns on every run and that top-level settings reach lazily created children; "
            "string children vs pre-constructed securities must give equal histories.",
            "Lazy/eager comparison per node name at 1e-9 relative; two lazily-added securities of one name may collapse into one (names stay unique).",
            "5/C19",
        ),
    }
)

CHECKS.update(
    {
        "C18": (
            "Hypothesis-generated finished backtests with every report recomputed independently from node histories; round-trip of the transaction list through ReplayTransactions",
            "For generated finished backtests (flat/nested, shared tickers, multipliers, no-trade and no-security runs, shorts, spreads) each report is recomputed from the node histories; the "
            "transaction list of zero-commission runs is replayed into a fresh flat strategy and must reproduce positions and values; fixed-income runs: positions, cumulated transactions and notional weights.",
            "Replay preconditions as in the repository's replay tests; same-date trades netting to zero in one ticker are an open finding (F29: predicate + witness in known_findings.json), counted and excluded.",
            "5/C18",
        ),
    }
)

CHECKS.update(
    {
        "C06": (
            "Hypothesis-generated prior portfolios, targets, cash fractions and cost models; Rebalance / RebalanceOverTime outcome vs target-weight oracle",
            "Generated prior portfolios (long/short, multipliers, optional funded sub-strategy with holdings), price moves, target vectors, cash fractions, integer or fractional positions and "
            "cost models, optionally a CapitalFlow booked right before; after Rebalance the weights/values/cash fraction are compared with the stated targets (fixed-income books: every target's notional == weight x notional base); RebalanceOverTime is driven step by step against the expected gap schedule.",
            "Costs entering the slack are all costs of the rebalance (fees + spread); exact relations only for fractional cost-free runs.",
            "5/C06",
        ),
    }
)

CHECKS.update(
    {
        "C17": (
            "Hypothesis-generated fixed-income backtests (all five security types, coupon/cost/notional schedules) with every accounting identity recomputed from the recorded series",
            "Generated fixed-income roots (optionally nested) over mixes of security types with irregular coupons, asymmetric holding costs, notional schedules, long/short targets, spreads and "
            "commissions; notionals, weights, post-Rebalance target notionals (probe), coupons, holding costs, cash ledger and value attribution incl. carry, additive index and renormalised result "
            "are recomputed independently on every date.",
            "Coupons/costs finite where a position is open; P&L on a zero notional base is refused by bt by design and discarded.",
            "5/C17",
        ),
    }
)

CHECKS.update(
    {
        "C20": (
            "Hypothesis-generated trees / unit-risk tables / hedge sets / close and roll tables with probe algos; independent recomputation of risks, hedge residuals and positions",
            "Generated trees with multipliers and unit-risk tables (missing tickers, 1-3 measures, history depth 0-2): a probe recomputes every node's risk and history row on every date; generated "
            "hedge instrument sets (square / over / under-determined) must zero the hedged measures or satisfy the normal equations; generated close and roll tables are checked against the positions "
            "recorded after the algos ran; close, roll and SelectActive cooperating on one strategy are probed after each algo (positions, selection, perm['closed'] / perm['rolled']).",
            "Close/roll algos run on every date; a security opened for the first time on or after its close date by a later algo of the same stack is exempt on that one date (the algo cannot see it).",
            "5/C20",
        ),
    }
)

NOT_YET = {}

ALL = ["C%02d" % i for i in range(1, 21)]


def main():
    checks = []
    for pid in ALL:
        if pid not in CHECKS:
            continue
        tech, text, note, ref = CHECKS[pid]
        checks.append(
            {
                "property_id": pid,
                "quick_cmd": "./check %s --tier quick" % pid,
                "thorough_cmd": "./check %s --tier thorough" % pid,
                "evidence_file": "evidence/%s.json" % pid,
                "replay_cmd_template": "./check %s --replay {path}" % pid,
                "engine": "hypothesis",
                "level_claimed": {"category": "exploration", "text": text, "design_ref": "DESIGN.md section " + ref},
                "level_note": note,
                "technique": tech,
            }
        )
    na = []
    for pid in ALL:
        if pid not in CHECKS:
            na.append({"property_id": pid, "reason": NOT_YET.get(pid, "check not built yet in this round; property-based testing applies (see DESIGN.md section 5) and the check is planned")})
    man = {
        "version": 1,
        "setup_cmd": "/venv/bin/python -c 'import hypothesis' 2>/dev/null || /venv/bin/pip install --no-index --find-links /opt/veriftools/wheels hypothesis; /venv/bin/python -m vlib.build py",
        "hooks": {
            "guard": "PMORISSETTE_BT_VERIF",
            "enable": "no source hooks: checks copy /repo/bt/*.py (working tree) into /verif/.build/<hash>/ and wrap methods from the harness; the variable is set by the checks but read by nothing in /repo",
            "baseline_off_cmd": "cd /repo && /venv/bin/python -m pytest -ra -q -p no:cacheprovider --timeout=900 --continue-on-collection-errors",
            "source_commits": [],
            "add_only": True,
        },
        "engines": [
            {
                "name": "hypothesis",
                "path": "vlib/",
                "serves_properties": sorted(CHECKS),
                "kind_free_text": "Hypothesis 6.168 strategies produce plain-data specs; vlib/interp.py interprets them against bt built from /repo's working tree; "
                "oracles are reference models / metamorphic relations / validity predicates in vlib/props; exhaustive enumeration for small finite domains",
            },
            {
                "name": "atheris",
                "path": "fuzz/",
                "serves_properties": ["C05"],
                "kind_free_text": "supplementary coverage-guided libFuzzer campaign (atheris 3.1, thorough tier of C05 only): bytes are decoded into the same allocate specs and judged by the same "
                "case function; 16 processes x 100k executions, seeded from VERIF_SEED; installed offline into /verif/.deps on first use, skipped (and reported in the evidence) if unavailable",
            },
        ],
        "checks": checks,
        "not_applicable": na,
        "notes": "Genuine defects found by the checks and repaired in /repo are listed in known_findings.json ('fixed' entries, with commit ids); open findings, if any, are listed there too.",
    }
    with open(os.path.join(VERIF, "MANIFEST.json"), "w") as fh:
        json.dump(man, fh, indent=1)
    print("wrote MANIFEST.json with %d checks, %d not_applicable" % (len(checks), len(na)))


if __name__ == "__main__":
    main()
