#!/bin/bash
# Re-confirm every seeded demonstration against /repo HEAD: the patch applies, the demo exits 0 without it and non-zero with it.
cd /verif
B=/tmp/reconf_base; rm -rf $B; mkdir -p $B; git -C /repo archive HEAD | tar -x -C $B
for d in seeded/*/; do
  n=$(basename $d)
  W=/tmp/reconf_w; rm -rf $W; cp -r $B $W; mkdir -p $W/out; cp $d/demo.py $W/out/demo.py
  (cd $W && PYTHONPATH=$W timeout 300 /venv/bin/python out/demo.py >/dev/null 2>&1); r0=$?
  (git apply --directory=$W --unsafe-paths $d/patch.diff 2>/dev/null || (cd $W && patch -s -p1 < /verif/$d/patch.diff >/dev/null 2>&1)) || { echo "$n PATCH-FAILS"; continue; }
  (cd $W && PYTHONPATH=$W timeout 300 /venv/bin/python out/demo.py >/dev/null 2>&1); r1=$?
  echo "$n without=$r0 with=$r1"
done
rm -rf $B /tmp/reconf_w
