"""print the bt-vs-model state after each op of a history spec (json file or stdin)"""
import json, sys
sys.path.insert(0, "/verif")
from vlib import harness, machine
spec = json.load(open(sys.argv[1])) if len(sys.argv) > 1 and sys.argv[1] != "-" else json.load(sys.stdin)
spec = spec.get("spec", spec)
ctx = harness.Ctx("C01", "quick", 1, 0, 1)
bt = ctx.bt
run = machine.TreeRun(bt, spec)
for op in spec["ops"]:
    ok = run.step(op)
    ap = run.apply_trades_to_model() if ok else []
    print(op, "ok" if ok else "SKIP", [(e["kind"], e["node"].full_name, e["amount"]) if e["kind"] == "alloc" else ("trade", e["sec"].full_name, e["q"]) for e in run.events])
    if not ok:
        continue
    for m in run.root.members:
        mm = run.model.by_path[m.full_name]
        if hasattr(m, "capital"):
            flag = "" if machine.close(m.value, run.model.value(mm), 1e6) and machine.close(m.capital, mm.cash, 1e6) else "   <<<<"
            print("    %-16s val %-22r %-22r cash %-22r %-22r w=%r%s" % (m.full_name, m.value, run.model.value(mm), m.capital, mm.cash, m.weight, flag))
        else:
            print("    %-16s pos %r %r price %r" % (m.full_name, m.position, mm.pos, m.price))
